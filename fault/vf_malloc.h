/* vf_malloc.h - force-included (-include) into every library source of the `fault` build variant:
 * plain malloc/calloc/free users (lib/dictBuilder, the default ZSTD_customMem path) go through counting, failable hooks
 * implemented by the harness. Nothing in /repo is touched. */
#ifndef VF_MALLOC_H
#define VF_MALLOC_H
#include <stddef.h>
#include <stdlib.h>   /* first, so that the macros below cannot rewrite its declarations */
#include <string.h>
#ifdef __cplusplus
extern "C" {
#endif
void* vf_malloc(size_t n);
void* vf_calloc(size_t n, size_t s);
void  vf_free(void* p);
#ifdef __cplusplus
}
#endif
#ifndef VF_NO_MALLOC_REDIRECT
#define malloc(n)    vf_malloc(n)
#define calloc(n, s) vf_calloc(n, s)
#define free(p)      vf_free(p)
#endif
#endif
