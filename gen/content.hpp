// content.hpp - content programs: compressible, structured inputs built from a tape.
// Random bytes are incompressible and only ever exercise raw blocks; a content
// program is a list of ops (literal run over a small alphabet, byte run, copy at a
// chosen distance, far copy, text, zero pages) executed into a buffer.
#pragma once
#include "../harness/vf.h"

namespace gen {

struct Xs {  // deterministic filler seeded from tape draws (a pure function of the tape)
    uint64_t s;
    explicit Xs(uint64_t seed) : s(seed * 0x9E3779B97F4A7C15ull + 0x1234567ull) {}
    uint32_t next() { s ^= s << 13; s ^= s >> 7; s ^= s << 17; return (uint32_t)(s >> 16); }
};

inline size_t gen_len(vf::Tape& t, size_t cap) {
    if (cap == 0) return 0;
    size_t hi;
    switch (t.weighted({3, 4, 4, 2, 1})) {
        case 0: hi = 8; break;
        case 1: hi = 64; break;
        case 2: hi = 1024; break;
        case 3: hi = 65536; break;
        default: hi = 1u << 20; break;
    }
    hi = std::min(hi, cap);
    return (size_t)t.range(1, hi);
}

struct ContentInfo {
    size_t size = 0; unsigned ops = 0, copies = 0, farcopies = 0, lits = 0, runs = 0, biglits = 0, noise = 0;
    int size_class = 0;
    std::string summary() const {
        char b[240];
        snprintf(b, sizeof b, "content{size=%zu class=%d ops=%u lit=%u run=%u copy=%u far=%u biglit=%u noise=%u}", size, size_class, ops, lits, runs, copies, farcopies, biglits, noise);
        return b;
    }
};

static const size_t BLOCK = 128 * 1024;

// target size from a class; class 0 is empty/tiny so that an exhausted tape gives the simplest input
inline size_t gen_size(vf::Tape& t, size_t max_size, int* cls_out = nullptr) {
    int cls = (int)t.weighted({2, 5, 6, 3, 3, 1});
    size_t sz = 0;
    switch (cls) {
        case 0: sz = (size_t)t.range(0, 16); break;
        case 1: sz = (size_t)t.range(17, 1024); break;
        case 2: sz = (size_t)t.range(1025, 64 * 1024); break;
        case 3: {  // block edges
            static const long edges[] = {(long)BLOCK - 1, (long)BLOCK, (long)BLOCK + 1, 2 * (long)BLOCK - 1, 2 * (long)BLOCK, 2 * (long)BLOCK + 1, (long)BLOCK - 3, (long)BLOCK + 3, 32768, 65536, 3 * (long)BLOCK + 7};
            sz = (size_t)edges[t.range(0, 10)];
            break;
        }
        case 4: sz = (size_t)t.range(64 * 1024 + 1, 1024 * 1024); break;
        default: sz = (size_t)t.range(1024 * 1024 + 1, 16u * 1024 * 1024); break;
    }
    if (sz > max_size) sz = max_size ? (sz % (max_size + 1)) : 0;
    if (cls_out) *cls_out = cls;
    return sz;
}

inline std::vector<uint8_t> gen_content_sized(vf::Tape& t, size_t target, ContentInfo* info = nullptr, size_t window_hint = 0) {
    std::vector<uint8_t> out;
    out.reserve(target);
    ContentInfo ci;
    size_t lastdist = 1;
    static const char* words[] = {"the ", "quick ", "brown ", "fox ", "zstd ", "frame ", "block ", "window ", "\n", "0123456789", "compress ", "offset=", "literal", "<div>", "</div>", "\"key\": ", "value, "};
    unsigned budget = 4000;  // ops
    while (out.size() < target && budget--) {
        size_t room = target - out.size();
        ci.ops++;
        if (t.exhausted()) {
            // simplest continuation: a single pattern op fills the rest (keeps huge inputs cheap on the tape)
            Xs x(out.size() + 17);
            size_t per = 1 + (out.size() % 7);
            for (size_t i = 0; i < room; i++) out.push_back((uint8_t)('a' + ((i / per) + (x.s & 3)) % 13));
            break;
        }
        switch (t.weighted({4, 2, 5, 2, 2, 1, 1, 2, 1, 1})) {
            case 0: {  // LIT over an alphabet
                size_t len = gen_len(t, room);
                unsigned alpha = (unsigned)t.pick<unsigned>({2, 4, 16, 64, 256, 1, 3, 200});
                unsigned base = (unsigned)t.range(0, 255);
                bool skew = t.flip();
                Xs x(t.raw() + 1);
                for (size_t i = 0; i < len; i++) {
                    uint32_t r = x.next();
                    unsigned sym = skew ? (unsigned)(((r & 0xff) * ((r >> 8) & 0xff)) >> 8) % alpha : r % alpha;
                    out.push_back((uint8_t)(base + sym));
                }
                ci.lits++;
                break;
            }
            case 1: {  // RUN
                size_t len = gen_len(t, room);
                uint8_t b = (uint8_t)t.range(0, 255);
                out.insert(out.end(), len, b);
                ci.runs++;
                break;
            }
            case 2: {  // COPY at a chosen distance
                if (out.empty()) { out.push_back((uint8_t)t.range(0, 255)); break; }
                size_t len = gen_len(t, room);
                size_t dist;
                size_t w = window_hint ? window_hint : 1u << 17;
                switch (t.weighted({3, 3, 2, 2, 2, 2})) {
                    case 0: dist = (size_t)t.range(1, 8); break;
                    case 1: dist = lastdist; break;
                    case 2: { unsigned k = (unsigned)t.range(3, 23); dist = ((size_t)1 << k) + (size_t)t.range(0, 2) - 1; break; }
                    case 3: dist = w + (size_t)t.range(0, 2) - 1; break;
                    case 4: dist = lastdist + (size_t)t.range(0, 6) - 3; break;
                    default: dist = (size_t)t.range(1, out.size()); break;
                }
                if (dist < 1) dist = 1;
                if (dist > out.size()) dist = 1 + dist % out.size();
                lastdist = dist;
                size_t from = out.size() - dist;
                for (size_t i = 0; i < len; i++) out.push_back(out[from + i]);
                ci.copies++;
                if (dist >= 65536) ci.farcopies++;
                break;
            }
            case 3: {  // TEXT
                size_t len = gen_len(t, room);
                Xs x(t.raw() + 7);
                size_t end = out.size() + len;
                while (out.size() < end) {
                    const char* wd = words[x.next() % (sizeof words / sizeof *words)];
                    for (; *wd && out.size() < end; wd++) out.push_back((uint8_t)*wd);
                }
                ci.lits++;
                break;
            }
            case 4: {  // FARCOPY: a long stretch from far back
                if (out.size() < 70000) { out.push_back(0x55); break; }
                size_t dist = (size_t)t.range(65536, out.size());
                size_t len = std::min(room, (size_t)t.range(8, 4096));
                size_t from = out.size() - dist;
                for (size_t i = 0; i < len; i++) out.push_back(out[from + i]);
                ci.farcopies++; ci.copies++;
                break;
            }
            case 8: {  // NOISE: a long incompressible stretch (raw blocks), usually followed by copies reaching back across it
                size_t len = std::min(room, (size_t)t.range(1, 5) * 65536 + (size_t)t.range(0, 70000));
                Xs x(t.raw() + 23);
                for (size_t i = 0; i < len; i++) out.push_back((uint8_t)(x.next() >> 3));
                ci.lits++; ci.noise++;
                // a few far copies over the noise: large offset codes in an otherwise quiet block
                unsigned k = (unsigned)t.range(0, 4);
                for (unsigned r = 0; r < k && out.size() + 16 < target; r++) {
                    size_t dist = (size_t)t.range(len / 2 + 1, out.size());
                    size_t cl = std::min(target - out.size(), (size_t)t.range(8, 3000));
                    size_t from = out.size() - dist;
                    for (size_t i = 0; i < cl; i++) out.push_back(out[from + i]);
                    for (size_t i = 0; i < 5 && out.size() < target; i++) out.push_back((uint8_t)('a' + (x.next() & 7)));
                    ci.copies++; ci.farcopies++;
                }
                break;
            }
            case 9: {  // RECNOISE: inside one block, stretches of records built from 2-3 templates (many sequences, alternating
                       // offsets: repeat-offset 2/3 material) alternate with near-incompressible stretches that hold a few
                       // short copies (a block-splitter partition that has sequences but is stored raw)
                unsigned rounds = (unsigned)t.range(2, 8);
                Xs x(t.raw() + 31);
                unsigned ntpl = (unsigned)t.range(2, 3);
                std::vector<std::vector<uint8_t>> tpl(ntpl);
                for (auto& tp : tpl) { tp.resize((size_t)t.range(12, 70)); for (auto& b : tp) b = (uint8_t)('A' + x.next() % 40); }
                for (unsigned r = 0; r < rounds && out.size() < target; r++) {
                    size_t rec = (size_t)t.range(1500, 20000), nz = (size_t)t.range(1500, 20000);
                    size_t end = std::min(target, out.size() + rec);
                    while (out.size() < end) {
                        const std::vector<uint8_t>& tp = tpl[x.next() % ntpl];
                        size_t mut = x.next() % tp.size(), mut2 = x.next() % tp.size();
                        for (size_t i = 0; i < tp.size() && out.size() < end; i++) out.push_back((i == mut || i == mut2) ? (uint8_t)x.next() : tp[i]);
                    }
                    end = std::min(target, out.size() + nz);
                    size_t next_copy = out.size() + 200 + x.next() % 1200;
                    while (out.size() < end) {
                        if (out.size() >= next_copy && out.size() > 3000) {
                            size_t d = 20 + x.next() % 2000, cl = 4 + x.next() % 4, from = out.size() - d;
                            for (size_t i = 0; i < cl && out.size() < end; i++) out.push_back(out[from + i]);
                            next_copy = out.size() + 200 + x.next() % 1200;
                        } else out.push_back((uint8_t)(x.next() >> 5));
                    }
                }
                ci.copies++; ci.noise++;
                break;
            }
            case 7: {  // REPEATSEG: one segment repeated k times with differing bytes between (records with a common field:
                       // equal-length match candidates, hash-bucket ties, LDM and repcode material)
                size_t seglen = (size_t)t.range(16, 4096);
                unsigned k = (unsigned)t.range(2, 40);
                size_t gap = (size_t)t.range(1, 300);
                Xs x(t.raw() + 11);
                std::vector<uint8_t> seg(seglen);
                for (auto& b : seg) b = (uint8_t)x.next();
                for (unsigned r = 0; r < k && out.size() < target; r++) {
                    for (size_t i = 0; i < seglen && out.size() < target; i++) out.push_back(seg[i]);
                    for (size_t i = 0; i < gap && out.size() < target; i++) out.push_back((uint8_t)x.next());
                }
                ci.copies++;
                break;
            }
            case 6: {  // BIGLIT: > 64 KiB of match-free but entropy-compressible literals (split literal buffer, 4-stream Huffman)
                size_t len = std::min(room, (size_t)t.range(65537, 131072));
                unsigned alpha = (unsigned)t.pick<unsigned>({96, 128, 200, 17, 256});
                Xs x(t.raw() + 3);
                for (size_t i = 0; i < len; i++) { uint32_t r = x.next(); out.push_back((uint8_t)(32 + (((r & 0xff) * ((r >> 8) & 0xff)) >> 8) % alpha)); }
                ci.lits++; ci.biglits++;
                break;
            }
            default: {  // ZERO pages
                size_t len = std::min(room, (size_t)t.range(1, 8) * 4096);
                out.insert(out.end(), len, 0);
                ci.runs++;
                break;
            }
        }
    }
    if (out.size() > target) out.resize(target);
    while (out.size() < target) out.push_back((uint8_t)out.size());
    ci.size = out.size();
    if (info) *info = ci;
    return out;
}

inline std::vector<uint8_t> gen_content(vf::Tape& t, size_t max_size, ContentInfo* info = nullptr, size_t window_hint = 0) {
    int cls = 0;
    size_t target = gen_size(t, max_size, &cls);
    auto v = gen_content_sized(t, target, info, window_hint);
    if (info) info->size_class = cls;
    return v;
}

// Make x start as the periodic continuation (period 1..15) of the dictionary's last bytes: after q < period free bytes the
// encoder finds a match that begins in the dictionary tail and runs on, overlapping itself, inside the frame's own output.
// Optionally cuts x shortly after that run so that the match ends near the end of the decoder's destination.
inline bool continue_dict_tail(vf::Tape& t, const std::vector<uint8_t>& dict_content, std::vector<uint8_t>& x) {
    if (dict_content.size() < 16) return false;
    size_t p = (size_t)t.range(1, 15), q = (size_t)t.range(0, p - 1), L = (size_t)t.pick<size_t>({20, 45, 64, 100, 300, 5000});
    L += (size_t)t.range(0, 40);
    if (x.size() < q + L) x.resize(q + L, (uint8_t)'z');
    for (size_t i = q; i < q + L; i++) x[i] = i >= p ? x[i - p] : dict_content[dict_content.size() - p + i];
    if (t.chance(60)) x.resize(q + L + (size_t)t.range(0, 40));
    return true;
}

// Whole-input shape for the block splitter: record-like stretches (short copies at a handful of fixed strides, 0-2 fresh
// letters between: hundreds of sequences per block, mostly repeat offsets) alternating with 20-90 KiB of noise that holds
// sparse 4-7 byte copies (a partition with sequences that is nevertheless stored raw).
inline std::vector<uint8_t> gen_records_and_noise(vf::Tape& t, size_t total) {
    std::vector<uint8_t> b; b.reserve(total);
    Xs x(t.raw() + 77);
    auto rec = [&](size_t n, unsigned nstr) {
        size_t end = std::min(total, b.size() + n); unsigned strides[4];
        for (auto& sd : strides) sd = 20 + x.next() % 200;
        while (b.size() < end) {
            unsigned st = strides[x.next() % nstr], len = 4 + x.next() % 12;
            if (b.size() < st + 1000) { b.push_back((uint8_t)('a' + x.next() % 26)); continue; }
            for (unsigned i = 0; i < len && b.size() < end; i++) b.push_back(b[b.size() - st]);
            unsigned nl = x.next() % 3;
            for (unsigned i = 0; i < nl && b.size() < end; i++) b.push_back((uint8_t)('a' + x.next() % 16));
        }
    };
    auto noise = [&](size_t n, unsigned gap, unsigned cl) {
        size_t end = std::min(total, b.size() + n);
        while (b.size() < end) {
            size_t run = gap / 2 + x.next() % gap;
            for (size_t i = 0; i < run && b.size() < end; i++) b.push_back((uint8_t)(x.next() >> 4));
            if (b.size() > 1000 && b.size() + cl < end) { size_t lim = std::min<size_t>(b.size() - 100, 60000); size_t off = 16 + x.next() % lim; for (unsigned i = 0; i < cl; i++) b.push_back(b[b.size() - off]); }
        }
    };
    rec((size_t)t.range(3000, 150000), (unsigned)t.range(1, 4));
    while (b.size() < total) {
        noise((size_t)t.range(20000, 90000), (unsigned)t.range(100, 900), (unsigned)t.range(4, 7));
        rec((size_t)t.range(5000, 65000), (unsigned)t.range(1, 4));
    }
    return b;
}

// Whole-input shape for the streaming decoder's ring buffer (window >= 128 KiB): units made of a copy of 8-16 KiB taken
// from almost a full window back, followed by 66-128 KiB of match-free, entropy-compressible literals (staged inside the
// output buffer by the decoder). With flushes cutting blocks at arbitrary places the ring wraps at every possible offset.
inline std::vector<uint8_t> gen_ring_stress(vf::Tape& t, size_t total, size_t window) {
    std::vector<uint8_t> b; b.reserve(total);
    Xs x(t.raw() + 91);
    auto lits = [&](size_t n, unsigned alpha) { for (size_t i = 0; i < n && b.size() < total; i++) { uint32_t r = x.next(); b.push_back((uint8_t)(32 + (((r & 0xff) * ((r >> 8) & 0xff)) >> 8) % alpha)); } };
    lits((size_t)t.range(window / 2, window + 131072), 64);
    while (b.size() < total) {
        size_t back = (size_t)t.range(window > 65536 ? window - 65536 : 1, window - 1);
        size_t len = (size_t)t.range(4096, 16384);
        if (back <= b.size()) { size_t from = b.size() - back; for (size_t i = 0; i < len && b.size() < total; i++) b.push_back(b[from + i]); }
        lits((size_t)t.range(66000, 131072), (unsigned)t.pick<unsigned>({64, 96, 200}));
    }
    return b;
}

}  // namespace gen
