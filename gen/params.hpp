// params.hpp - compression parameter vectors drawn from ZSTD_cParam_getBounds.
#pragma once
#define ZSTD_STATIC_LINKING_ONLY
#include "zstd.h"
#include "zstd_errors.h"
#include "../harness/vf.h"

namespace gen {

struct PV { ZSTD_cParameter p; int v; const char* name; };

struct ParamSet {
    std::vector<PV> v;
    bool has(ZSTD_cParameter p) const { for (auto& x : v) if (x.p == p) return true; return false; }
    int get(ZSTD_cParameter p, int dflt) const { int r = dflt; for (auto& x : v) if (x.p == p) r = x.v; return r; }
    std::string str() const {
        std::string s = "params{";
        for (auto& x : v) { char b[64]; snprintf(b, sizeof b, "%s=%d ", x.name, x.v); s += b; }
        s += "}";
        return s;
    }
};

struct PDesc { ZSTD_cParameter p; const char* name; int lo_cap, hi_cap; unsigned weight; };

// caps keep memory inside the sandbox budget; they are reported in evidence, and thorough tiers raise them
inline const std::vector<PDesc>& ptable(bool thorough) {
    static std::vector<PDesc> q, th;
    auto& tbl = thorough ? th : q;
    if (tbl.empty()) {
        int wmax = thorough ? 27 : 23, tmax = thorough ? 26 : 22;
        tbl = {
            {ZSTD_c_compressionLevel, "level", -50, 22, 10},
            {ZSTD_c_windowLog, "windowLog", 10, wmax, 6},
            {ZSTD_c_hashLog, "hashLog", 6, tmax, 4},
            {ZSTD_c_chainLog, "chainLog", 6, tmax, 4},
            {ZSTD_c_searchLog, "searchLog", 1, 9, 3},
            {ZSTD_c_minMatch, "minMatch", 3, 7, 5},
            {ZSTD_c_targetLength, "targetLength", 0, 4096, 3},
            {ZSTD_c_strategy, "strategy", 1, 9, 8},
            {ZSTD_c_targetCBlockSize, "targetCBlockSize", 0, 131072, 4},
            {ZSTD_c_enableLongDistanceMatching, "ldm", 0, 2, 4},
            {ZSTD_c_ldmHashLog, "ldmHashLog", 6, tmax, 2},
            {ZSTD_c_ldmMinMatch, "ldmMinMatch", 4, 4096, 2},
            {ZSTD_c_ldmBucketSizeLog, "ldmBucketSizeLog", 1, 8, 2},
            {ZSTD_c_ldmHashRateLog, "ldmHashRateLog", 0, 12, 2},
            {ZSTD_c_contentSizeFlag, "contentSizeFlag", 0, 1, 3},
            {ZSTD_c_checksumFlag, "checksumFlag", 0, 1, 4},
            {ZSTD_c_dictIDFlag, "dictIDFlag", 0, 1, 2},
            {ZSTD_c_format, "format", 0, 1, 2},
            {ZSTD_c_forceMaxWindow, "forceMaxWindow", 0, 1, 2},
            {ZSTD_c_literalCompressionMode, "literalCompressionMode", 0, 2, 3},
            {ZSTD_c_srcSizeHint, "srcSizeHint", 0, 1 << 24, 2},
            {ZSTD_c_useBlockSplitter, "useBlockSplitter", 0, 2, 4},
            {ZSTD_c_useRowMatchFinder, "useRowMatchFinder", 0, 2, 4},
            {ZSTD_c_maxBlockSize, "maxBlockSize", 0, 131072, 4},
            {ZSTD_c_searchForExternalRepcodes, "searchForExternalRepcodes", 0, 2, 1},
            {ZSTD_c_prefetchCDictTables, "prefetchCDictTables", 0, 2, 1},
        };
    }
    return tbl;
}

inline int gen_value(vf::Tape& t, const PDesc& d) {
    ZSTD_bounds b = ZSTD_cParam_getBounds(d.p);
    long lo = std::max<long>(b.lowerBound, d.lo_cap), hi = std::min<long>(b.upperBound, d.hi_cap);
    if (d.p == ZSTD_c_compressionLevel) {
        switch (t.weighted({6, 2, 2, 1})) {
            case 0: return (int)t.irange(1, 22);
            case 1: return (int)t.irange(-7, 0);
            case 2: return (int)t.irange(16, 22);
            default: return (int)t.irange((int)lo, (int)hi);
        }
    }
    if (d.p == ZSTD_c_targetCBlockSize || d.p == ZSTD_c_maxBlockSize) {
        switch (t.weighted({2, 3, 3, 2})) {
            case 0: return 0;
            case 1: return (int)t.irange(b.lowerBound > 0 ? b.lowerBound : 1024, 4096);
            case 2: return (int)t.irange(1024 > b.lowerBound ? 1024 : b.lowerBound, (int)hi);
            default: return (int)hi - (int)t.range(0, 1);
        }
    }
    switch (t.weighted({5, 1, 1, 1, 1})) {
        case 0: return (int)t.irange((int)lo, (int)hi);
        case 1: return (int)lo;
        case 2: return (int)hi;
        case 3: return (int)std::min(hi, lo + 1);
        default: return (int)std::max(lo, hi - 1);
    }
}

inline ParamSet gen_params(vf::Tape& t, bool thorough = false, unsigned max_over = 8) {
    ParamSet ps;
    const auto& tbl = ptable(thorough);
    unsigned k = (unsigned)t.weighted({2, 2, 2, 2, 2, 1, 1, 1, 1});
    if (k > max_over) k = max_over;
    unsigned tot = 0;
    for (auto& d : tbl) tot += d.weight;
    for (unsigned i = 0; i < k; i++) {
        unsigned r = (unsigned)t.range(0, tot - 1);
        const PDesc* d = &tbl[0];
        for (auto& x : tbl) { if (r < x.weight) { d = &x; break; } r -= x.weight; }
        ps.v.push_back({d->p, gen_value(t, *d), d->name});
    }
    return ps;
}

// Apply; a setter refusal drops that assignment (counted by caller); returns number refused.
inline unsigned apply_params(ZSTD_CCtx* cctx, ParamSet& ps, vf::Ctx* c = nullptr) {
    unsigned refused = 0;
    std::vector<PV> kept;
    for (auto& x : ps.v) {
        size_t r = ZSTD_CCtx_setParameter(cctx, x.p, x.v);
        if (ZSTD_isError(r)) { refused++; if (c) c->label("setter_refused"); }
        else kept.push_back(x);
    }
    ps.v = kept;
    return refused;
}

// Rough context memory for the parameters (sandbox memory cap only; own arithmetic so that the
// library's estimators stay the business of C14 alone)
inline size_t estimate_mem(const ParamSet& ps) {
    size_t w = (size_t)1 << ps.get(ZSTD_c_windowLog, 21);
    size_t h = (size_t)4 << ps.get(ZSTD_c_hashLog, 20);
    size_t ch = (size_t)8 << ps.get(ZSTD_c_chainLog, 20);
    size_t l = ps.get(ZSTD_c_enableLongDistanceMatching, 0) == 1 ? ((size_t)12 << ps.get(ZSTD_c_ldmHashLog, 20)) : 0;
    return 2 * w + h + ch + l + (4u << 20);
}

}  // namespace gen
