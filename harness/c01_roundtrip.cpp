// C01 - one-shot round trip for every input and parameter set.
#include "vf.h"
#include "../gen/content.hpp"
#include "../gen/params.hpp"
#include "frame_walk.hpp"

const char* vf_property_id() { return "C01"; }

static bool g_thorough = false;
void vf_setup() { const char* e = getenv("VERIF_TIER"); g_thorough = e && !strcmp(e, "thorough"); }

static bool clean_refusal(size_t code) {
    ZSTD_ErrorCode e = ZSTD_getErrorCode(code);
    return e == ZSTD_error_memory_allocation || e == ZSTD_error_parameter_unsupported || e == ZSTD_error_parameter_combination_unsupported;
}

void vf_case(vf::Ctx& c) {
    vf::Tape& t = c.t;
    int entry = (int)t.weighted({6, 1, 1, 1});  // compress2 | ZSTD_compress | compressCCtx | compress_advanced
    gen::ParamSet ps = gen::gen_params(t, g_thorough);
    size_t wl = (size_t)ps.get(ZSTD_c_windowLog, 0);
    gen::ContentInfo ci;
    size_t maxsz = g_thorough ? (16u << 20) : (1u << 20);
    int lvl = ps.get(ZSTD_c_compressionLevel, 3);
    int strat = ps.get(ZSTD_c_strategy, 0);
    if (lvl >= 16 || strat >= 7) maxsz = std::min<size_t>(maxsz, g_thorough ? (1u << 20) : (256u << 10));
    std::vector<uint8_t> x;
    if (t.chance(12)) {
        // the block splitter's own diet: records + noisy stretches inside single blocks; the splitter is then forced on half of the time
        x = gen::gen_records_and_noise(t, (size_t)t.range(100u << 10, std::min<size_t>(maxsz, 600u << 10)));
        if (t.flip()) ps.v.push_back({ZSTD_c_useBlockSplitter, 1, "useBlockSplitter"});
        c.label("content_records_and_noise");
    } else x = gen::gen_content(t, maxsz, &ci, wl ? ((size_t)1 << wl) : 0);
    int dec = (int)t.weighted({3, 2, 2});  // decompress | decompressDCtx | streaming

    // contexts live inside the case: a tape replays identically in a fresh process
    struct Ctxs { ZSTD_CCtx* c = ZSTD_createCCtx(); ZSTD_DCtx* d = ZSTD_createDCtx(); ~Ctxs() { ZSTD_freeCCtx(c); ZSTD_freeDCtx(d); } } k;
    ZSTD_CCtx* cctx = k.c; ZSTD_DCtx* dctx = k.d;
    bool fresh = true;

    size_t bound = ZSTD_compressBound(x.size());
    vf::Buf src(x.data(), x.size());
    vf::Buf dst(bound);
    size_t csize;
    bool magicless = false;
    const char* ename;
    if (entry == 0) {
        ename = "compress2";
        gen::apply_params(cctx, ps, &c);
        size_t est = gen::estimate_mem(ps);
        if (est > (g_thorough ? (3ull << 30) : (700ull << 20))) c.discard("memcap");
        magicless = ps.get(ZSTD_c_format, 0) == 1;
        csize = ZSTD_compress2(cctx, dst.p, dst.n, src.p, src.n);
    } else if (entry == 1) {
        ename = "ZSTD_compress";
        csize = ZSTD_compress(dst.p, dst.n, src.p, src.n, lvl);
    } else if (entry == 2) {
        ename = "compressCCtx";
        csize = ZSTD_compressCCtx(cctx, dst.p, dst.n, src.p, src.n, lvl);
    } else {
        ename = "compress_advanced";
        ZSTD_parameters zp = ZSTD_getParams(lvl, x.size(), 0);
        // override cParams from the vector, then let the library validate them
        for (auto& pv : ps.v) switch (pv.p) {
            case ZSTD_c_windowLog: zp.cParams.windowLog = (unsigned)pv.v; break;
            case ZSTD_c_hashLog: zp.cParams.hashLog = (unsigned)pv.v; break;
            case ZSTD_c_chainLog: zp.cParams.chainLog = (unsigned)pv.v; break;
            case ZSTD_c_searchLog: zp.cParams.searchLog = (unsigned)pv.v; break;
            case ZSTD_c_minMatch: zp.cParams.minMatch = (unsigned)pv.v; break;
            case ZSTD_c_targetLength: zp.cParams.targetLength = (unsigned)pv.v; break;
            case ZSTD_c_strategy: zp.cParams.strategy = (ZSTD_strategy)pv.v; break;
            case ZSTD_c_checksumFlag: zp.fParams.checksumFlag = pv.v; break;
            case ZSTD_c_contentSizeFlag: zp.fParams.contentSizeFlag = pv.v; break;
            default: break;
        }
        if (ZSTD_isError(ZSTD_checkCParams(zp.cParams))) c.discard("advanced_cparams_invalid");
        csize = ZSTD_compress_advanced(cctx, dst.p, dst.n, src.p, src.n, nullptr, 0, zp);
    }
    c.note("%s %s %s dec=%d fresh=%d", ename, ps.str().c_str(), ci.summary().c_str(), dec, (int)fresh);
    c.label(std::string("entry:") + ename);
    c.label("size_class:" + std::to_string(ci.size_class));
    if (ZSTD_isError(csize)) {
        if (clean_refusal(csize)) { c.label("clean_refusal"); c.discard("clean_refusal"); }
        c.fail("compression into a compressBound buffer failed: %s", ZSTD_getErrorName(csize));
    }
    VF_CHECK(c, csize <= bound, "csize %zu > bound %zu", csize, bound);

    // structural look for the non-trivial rule (independent block walker)
    fw::Frame f = fw::walk(dst.p, csize, magicless);
    VF_CHECK(c, f.ok, "own block walker cannot parse the produced frame (size %zu)", csize);
    VF_CHECK(c, f.total_size == csize, "frame walker ends at %zu, compressor returned %zu", f.total_size, csize);
    if (f.n_comp) c.label("has_compressed_block");
    if (f.n_raw) c.label("has_raw_block");
    if (f.n_rle) c.label("has_rle_block");
    if (f.blocks.size() > 1) c.label("multi_block");
    c.nontrivial = f.n_comp > 0 || f.blocks.size() > 1;
    c.label(std::string("strategy_set:") + std::to_string(strat));
    if (ps.get(ZSTD_c_enableLongDistanceMatching, 0) == 1) c.label("ldm_on");

    // decode
    vf::Buf cs(dst.p, csize);  // exact-size source
    vf::Buf out(x.size());
    size_t dsize;
    if (magicless) ZSTD_DCtx_setParameter(dctx, ZSTD_d_format, ZSTD_f_zstd1_magicless);
    if (f.window_size > (1ull << 27)) ZSTD_DCtx_setParameter(dctx, ZSTD_d_windowLogMax, 31);
    if (dec == 0 && !magicless) {
        dsize = ZSTD_decompress(out.p, out.n, cs.p, cs.n);
    } else if (dec <= 1) {
        dsize = ZSTD_decompressDCtx(dctx, out.p, out.n, cs.p, cs.n);
    } else {
        ZSTD_inBuffer in = {cs.p, cs.n, 0};
        ZSTD_outBuffer ob = {out.p, out.n, 0};
        size_t r = 1;
        size_t ichunk = (size_t)t.range(1, 70000), ochunk = (size_t)t.range(1, 140000);
        unsigned guard = 0;
        while (r != 0) {
            ZSTD_inBuffer i2 = {cs.p, std::min(cs.n, in.pos + ichunk), in.pos};
            ZSTD_outBuffer o2 = {out.p, std::min(out.n, ob.pos + ochunk), ob.pos};
            r = ZSTD_decompressStream(dctx, &o2, &i2);
            if (ZSTD_isError(r)) break;
            bool progressed = i2.pos != in.pos || o2.pos != ob.pos;
            in.pos = i2.pos; ob.pos = o2.pos;
            if (!progressed && ++guard > 4) { r = (size_t)-1; break; }
            if (progressed) guard = 0;
            if (in.pos == cs.n && ob.pos == out.n && r != 0 && !progressed) break;
        }
        if (ZSTD_isError(r)) dsize = r;
        else { dsize = ob.pos; VF_CHECK(c, in.pos == cs.n, "streaming decode stopped at %zu of %zu", in.pos, cs.n); }
    }
    VF_CHECK(c, !ZSTD_isError(dsize), "decode failed: %s", ZSTD_getErrorName(dsize));
    VF_CHECK(c, dsize == x.size(), "decoded length %zu != original %zu", dsize, x.size());
    if (x.size()) {
        if (memcmp(out.p, x.data(), x.size()) != 0) {
            size_t i = 0; while (out.p[i] == x[i]) i++;
            c.fail("decoded bytes differ at offset %zu (of %zu)", i, x.size());
        }
    }
}
