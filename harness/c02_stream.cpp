// C02 - streaming round trip under any call history and buffer segmentation.
#include "stream_engine.hpp"

const char* vf_property_id() { return "C02"; }
static bool g_thorough = false;
void vf_setup() { const char* e = getenv("VERIF_TIER"); g_thorough = e && !strcmp(e, "thorough"); }

void vf_case(vf::Ctx& c) {
    // contexts live inside the case: a tape replays identically in a fresh process
    struct Ctxs { ZSTD_CCtx* c = ZSTD_createCCtx(); ZSTD_DCtx* d = ZSTD_createDCtx(); ~Ctxs() { ZSTD_freeCCtx(c); ZSTD_freeDCtx(d); } } k;
    ZSTD_CCtx* cctx = k.c; ZSTD_DCtx* dctx = k.d;
    se::EncOpts eo;
    eo.thorough = g_thorough;
    eo.max_content = g_thorough ? (4u << 20) : (512u << 10);
    se::EncResult er = se::gen_stream(c, cctx, eo);
    std::vector<uint8_t> x = er.all();
    c.label("frames:" + std::to_string(er.frames.size()));
    if (er.nbWorkers) c.label("mt");

    // (2)+(4): decode under a generated segmentation
    int dfl = (int)c.t.weighted({8, 2, 1, 1});
    if (er.magicless && dfl == se::D_ZBUFF) dfl = se::D_STREAM;
    se::DecStats ds;
    c.note("dec=%s ", se::dflavor_name[dfl]);
    c.label(std::string("dec_flavor:") + se::dflavor_name[dfl]);
    std::vector<uint8_t> y = se::decode_stream(c, dctx, er, dfl, &ds);
    VF_CHECK(c, y.size() == x.size(), "streaming decode produced %zu bytes, %zu were consumed by the encoder", y.size(), x.size());
    if (!x.empty() && memcmp(x.data(), y.data(), x.size())) {
        size_t i = 0; while (x[i] == y[i]) i++;
        c.fail("streaming round trip differs at offset %zu of %zu", i, x.size());
    }
    // (3): single-call decode of the same bytes gives the same result
    {
        vf::Buf src(er.out.data(), er.out.size());
        vf::Buf out(x.size());
        ZSTD_DCtx_reset(dctx, ZSTD_reset_session_and_parameters);
        if (er.magicless) ZSTD_DCtx_setParameter(dctx, ZSTD_d_format, ZSTD_f_zstd1_magicless);
        size_t r = ZSTD_decompressDCtx(dctx, out.p, out.n, src.p, src.n);
        VF_CHECK(c, !ZSTD_isError(r), "single-call decode of the stream failed: %s", ZSTD_getErrorName(r));
        VF_CHECK(c, r == x.size() && (x.empty() || !memcmp(out.p, x.data(), x.size())), "single-call decode differs from streaming decode (len %zu vs %zu)", r, x.size());
    }
    // (5): buffer-less decode, frame by frame: nextSrcSizeToDecompress()==0 exactly at frame ends
    if (!er.magicless && c.t.chance(50)) {
        for (auto& fr : er.frames) {
            size_t r = ZSTD_decompressBegin(dctx);
            VF_CHECK(c, !ZSTD_isError(r), "decompressBegin: %s", ZSTD_getErrorName(r));
            size_t cp = fr.cBegin;
            size_t flen = fr.dEnd - fr.dBegin;
            // contiguous output so that back-references resolve (documented requirement)
            vf::Buf out(flen + 1);
            size_t op = 0;
            unsigned guard = 0;
            for (;;) {
                size_t need = ZSTD_nextSrcSizeToDecompress(dctx);
                if (need == 0) break;
                VF_CHECK(c, cp + need <= fr.cEnd, "bufferless decoder asks for %zu bytes at %zu, frame ends at %zu", need, cp, fr.cEnd);
                vf::Buf piece(er.out.data() + cp, need);
                size_t w = ZSTD_decompressContinue(dctx, out.p + op, out.n - op, piece.p, need);
                VF_CHECK(c, !ZSTD_isError(w), "decompressContinue(%zu) at %zu: %s", need, cp, ZSTD_getErrorName(w));
                cp += need; op += w;
                VF_CHECK(c, ++guard < 1000000, "bufferless decoder does not terminate");
            }
            VF_CHECK(c, cp == fr.cEnd, "bufferless: nextSrcSizeToDecompress()==0 at %zu but the frame ends at %zu", cp, fr.cEnd);
            VF_CHECK(c, op == flen && (flen == 0 || !memcmp(out.p, x.data() + fr.dBegin, flen)), "bufferless decode differs (len %zu vs %zu)", op, flen);
        }
        c.label("bufferless_decode");
    }
    // non-trivial rule
    bool structural = false;
    for (auto& fr : er.frames) if (!fr.skippable) {
        fw::Frame f = fw::walk(er.out.data() + fr.cBegin, fr.cEnd - fr.cBegin, er.magicless);
        VF_CHECK(c, f.ok && f.total_size == fr.cEnd - fr.cBegin, "frame end recorded by the model (%zu) is not where the block walker ends (%zu)", fr.cEnd - fr.cBegin, f.total_size);
        if (f.n_comp || f.blocks.size() > 1) structural = true;
    }
    bool hist = er.out_full || er.mid_flush || er.tiny_in || er.tiny_out || ds.tiny_in || ds.tiny_out || ds.out_full || ds.hdr_split;
    if (er.out_full) c.label("enc_output_filled");
    if (er.mid_flush) c.label("enc_mid_flush");
    if (ds.hdr_split) c.label("dec_header_split");
    if (ds.tiny_in) c.label("dec_tiny_in");
    if (ds.out_full) c.label("dec_output_filled");
    c.maxi("enc_calls", er.calls); c.maxi("dec_calls", ds.calls);
    c.nontrivial = structural && hist;
}
