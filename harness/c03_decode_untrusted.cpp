// C03 - decoding untrusted bytes is memory-safe, bounded and terminating.
// Two drivers over one routine `attack(bytes, controls)`:
//   rc arm   : valid frame from the stream engine, then generated mutations (field-aware and byte-level)
//   fuzz arm : libFuzzer bytes are the stream; control words are taken from the END of the input
#include "stream_engine.hpp"
#include <unistd.h>
#include <sys/stat.h>

const char* vf_property_id() { return "C03"; }
static bool g_thorough = false;
static std::vector<uint8_t> g_golden_dict;
static std::vector<std::vector<uint8_t>> g_legacy;   // sample frames of older format versions

static std::vector<uint8_t> slurp(const std::string& p) {
    std::vector<uint8_t> v; FILE* f = fopen(p.c_str(), "rb"); if (!f) return v;
    uint8_t b[4096]; size_t r; while ((r = fread(b, 1, sizeof b, f)) > 0) v.insert(v.end(), b, b + r); fclose(f); return v;
}
void vf_setup() {
    const char* e = getenv("VERIF_TIER"); g_thorough = e && !strcmp(e, "thorough");
    const char* repo = getenv("VERIF_REPO");
    g_golden_dict = slurp(std::string(repo ? repo : "/repo") + "/tests/golden-dictionaries/http-dict-missing-symbols");
    // sample frames of the legacy formats still compiled in (v0.5 - v0.7 with ZSTD_LEGACY_SUPPORT=5) and of v0.8: the tree's
    // own test vector, the C string COMPRESSED in tests/legacy.c, split into frames
    std::vector<uint8_t> src = slurp(std::string(repo ? repo : "/repo") + "/tests/legacy.c");
    std::string txt(src.begin(), src.end());
    size_t at = txt.find("const char* const COMPRESSED =");
    if (at != std::string::npos) {
        std::vector<uint8_t> blob; size_t end = txt.find(';', at);
        bool in = false;
        for (size_t i = at; i < end && i < txt.size(); i++) {
            char ch = txt[i];
            if (ch == '"') { in = !in; continue; }
            if (!in) continue;
            if (ch == '\\' && i + 3 < txt.size() && txt[i + 1] == 'x') { blob.push_back((uint8_t)strtoul(txt.substr(i + 2, 2).c_str(), nullptr, 16)); i += 3; }
            else blob.push_back((uint8_t)ch);
        }
        // cut at the magic numbers 0xFD2FB524..28 (the first sample is v0.4, which this build does not decode)
        std::vector<size_t> starts;
        for (size_t i = 0; i + 4 <= blob.size(); i++) if (blob[i] >= 0x24 && blob[i] <= 0x28 && blob[i + 1] == 0xB5 && blob[i + 2] == 0x2F && blob[i + 3] == 0xFD) starts.push_back(i);
        for (size_t i = 0; i < starts.size(); i++) {
            size_t e2 = i + 1 < starts.size() ? starts[i + 1] : blob.size();
            g_legacy.emplace_back(blob.begin() + (long)starts[i], blob.begin() + (long)e2);
        }
    }
}

struct Controls {
    uint32_t mask;       // which entry points
    unsigned dictMode;   // 0 none, 1 payload prefix as raw/any dict, 2 golden dictionary, 3 dict with forged ID
    size_t dictLen;
    size_t cap;          // output capacity
    size_t ichunk, ochunk;
    bool magicless;
    unsigned nDDicts;    // multi-ddict table population
    uint32_t seed;
};

#define CHECK_RET(c, r, cap, what) do { if (!ZSTD_isError(r)) VF_CHECK(c, (r) <= (cap), "%s returned %zu for an output capacity of %zu", what, (size_t)(r), (size_t)(cap)); } while (0)

static void attack(vf::Ctx& c, const std::vector<uint8_t>& bytes, const Controls& k) {
    vf::Buf src(bytes.data(), bytes.size());  // exact-size: one byte of over-read is a report
    size_t n = src.n;
    size_t cap = k.cap;
    std::vector<uint8_t> dictv;
    if (k.dictMode == 1) dictv.assign(bytes.begin(), bytes.begin() + (long)std::min(k.dictLen, bytes.size()));
    else if (k.dictMode == 2) dictv = g_golden_dict;
    else if (k.dictMode == 3) { dictv = g_golden_dict; if (dictv.size() > 8) { dictv[4] = (uint8_t)k.seed; dictv[5] = (uint8_t)(k.seed >> 8); } }
    vf::Buf dict(dictv.data(), dictv.size());
    unsigned accepted = 0;
    ZSTD_DCtx* d = ZSTD_createDCtx();
    struct G { ZSTD_DCtx* d; ~G() { ZSTD_freeDCtx(d); } } g{d};
    auto fmt = [&]() { if (k.magicless) ZSTD_DCtx_setParameter(d, ZSTD_d_format, ZSTD_f_zstd1_magicless); };

    // ---- inspectors ----
    if (k.mask & 1) {
        ZSTD_frameHeader fh;
        size_t r = ZSTD_getFrameHeader(&fh, src.p, n);
        if (r == 0) { c.label("hdr_ok"); }
        r = ZSTD_getFrameHeader_advanced(&fh, src.p, n, k.magicless ? ZSTD_f_zstd1_magicless : ZSTD_f_zstd1);
        (void)ZSTD_getFrameContentSize(src.p, n);
        (void)ZSTD_findDecompressedSize(src.p, n);
        size_t fs = ZSTD_findFrameCompressedSize(src.p, n);
        if (!ZSTD_isError(fs)) VF_CHECK(c, fs <= n, "findFrameCompressedSize returned %zu for a %zu-byte input", fs, n);
        (void)ZSTD_decompressBound(src.p, n);
        (void)ZSTD_decompressionMargin(src.p, n);
        (void)ZSTD_isFrame(src.p, n);
        (void)ZSTD_isSkippableFrame(src.p, n);
        (void)ZSTD_getDictID_fromFrame(src.p, n);
        (void)ZSTD_getDictID_fromDict(src.p, n);
        (void)ZSTD_frameHeaderSize(src.p, n);
        unsigned mv = 0;
        vf::Buf sk(std::min<size_t>(cap, 4096));
        size_t rs = ZSTD_readSkippableFrame(sk.p, sk.n, &mv, src.p, n);
        CHECK_RET(c, rs, sk.n, "readSkippableFrame");
    }
    // ---- one-shot ----
    if (k.mask & 2) {
        vf::Buf out(cap);
        size_t r = k.magicless ? (size_t)-1 : ZSTD_decompress(out.p, cap, src.p, n);
        CHECK_RET(c, r, cap, "ZSTD_decompress");
        if (!ZSTD_isError(r)) accepted++;
        ZSTD_DCtx_reset(d, ZSTD_reset_session_and_parameters); fmt();
        r = ZSTD_decompressDCtx(d, out.p, cap, src.p, n);
        CHECK_RET(c, r, cap, "ZSTD_decompressDCtx");
        if (!ZSTD_isError(r)) accepted++;
    }
    // ---- dictionaries ----
    if ((k.mask & 4) && k.dictMode) {
        vf::Buf out(cap);
        ZSTD_DCtx_reset(d, ZSTD_reset_session_and_parameters); fmt();
        size_t r = ZSTD_decompress_usingDict(d, out.p, cap, src.p, n, dict.p, dict.n);
        CHECK_RET(c, r, cap, "decompress_usingDict");
        if (!ZSTD_isError(r)) accepted++;
        ZSTD_DDict* dd = ZSTD_createDDict(dict.p, dict.n);
        if (dd) {
            (void)ZSTD_getDictID_fromDDict(dd);
            ZSTD_DCtx_reset(d, ZSTD_reset_session_and_parameters); fmt();
            r = ZSTD_decompress_usingDDict(d, out.p, cap, src.p, n, dd);
            CHECK_RET(c, r, cap, "decompress_usingDDict");
            ZSTD_DCtx_reset(d, ZSTD_reset_session_and_parameters); fmt();
            ZSTD_DCtx_refDDict(d, dd);
            r = ZSTD_decompressDCtx(d, out.p, cap, src.p, n);
            CHECK_RET(c, r, cap, "decompressDCtx+refDDict");
            ZSTD_freeDDict(dd);
        }
        ZSTD_DCtx_reset(d, ZSTD_reset_session_and_parameters); fmt();
        r = ZSTD_DCtx_loadDictionary(d, dict.p, dict.n);
        if (!ZSTD_isError(r)) { r = ZSTD_decompressDCtx(d, out.p, cap, src.p, n); CHECK_RET(c, r, cap, "decompressDCtx+loadDictionary"); }
        ZSTD_DCtx_reset(d, ZSTD_reset_session_and_parameters); fmt();
        r = ZSTD_DCtx_refPrefix(d, dict.p, dict.n);
        if (!ZSTD_isError(r)) { r = ZSTD_decompressDCtx(d, out.p, cap, src.p, n); CHECK_RET(c, r, cap, "decompressDCtx+refPrefix"); }
        c.label("with_dict");
    }
    // ---- multi-DDict table ----
    if ((k.mask & 8) && k.nDDicts) {
        vf::Buf out(cap);
        ZSTD_DCtx_reset(d, ZSTD_reset_session_and_parameters); fmt();
        ZSTD_DCtx_setParameter(d, ZSTD_d_refMultipleDDicts, ZSTD_rmd_refMultipleDDicts);
        std::vector<ZSTD_DDict*> dds;
        gen::Xs xs(k.seed + 5);
        for (unsigned i = 0; i < k.nDDicts && g_golden_dict.size() > 8; i++) {
            std::vector<uint8_t> dv = g_golden_dict;
            uint32_t id = xs.next() | 1;
            if (i == 0 && n >= 9) id = (uint32_t)src.p[5] | ((uint32_t)src.p[6] << 8) | ((uint32_t)src.p[7] << 16) | ((uint32_t)src.p[8] << 24);
            if (i == 1 && n >= 6) id = src.p[5];
            memcpy(&dv[4], &id, 4);
            ZSTD_DDict* dd = ZSTD_createDDict(dv.data(), dv.size());
            if (!dd) continue;
            dds.push_back(dd);
            ZSTD_DCtx_refDDict(d, dd);
        }
        size_t r = ZSTD_decompressDCtx(d, out.p, cap, src.p, n);
        CHECK_RET(c, r, cap, "decompressDCtx+multiDDict");
        // streaming selects the DDict from the table per frame
        ZSTD_inBuffer in = {src.p, n, 0}; ZSTD_outBuffer ob = {out.p, cap, 0};
        for (unsigned i = 0; i < 64; i++) { size_t rr = ZSTD_decompressStream(d, &ob, &in); if (ZSTD_isError(rr) || rr == 0) break; if (in.pos == in.size && ob.pos < ob.size) break; if (ob.pos == ob.size) ob.pos = 0; }
        for (auto dd : dds) ZSTD_freeDDict(dd);
        c.label("multi_ddict");
    }
    // ---- streaming under segmentation ----
    if (k.mask & 16) {
        for (int mode = 0; mode < 3; mode++) {
            if (mode == 1 && !(k.mask & 0x100)) continue;
            if (mode == 2 && !(k.mask & 0x200)) continue;
            ZSTD_DCtx_reset(d, ZSTD_reset_session_and_parameters); fmt();
            ZSTD_DCtx_setParameter(d, ZSTD_d_windowLogMax, g_thorough ? 27 : 24);
            if (k.dictMode && (k.mask & 4)) ZSTD_DCtx_loadDictionary(d, dict.p, dict.n);
            if (mode == 1) ZSTD_DCtx_setParameter(d, ZSTD_d_stableOutBuffer, 1);
            if (mode == 2) ZSTD_DCtx_setParameter(d, ZSTD_d_disableHuffmanAssembly, 1);
            size_t ocap = mode == 1 ? cap : std::max<size_t>(1, k.ochunk);
            vf::Buf ob(ocap);
            size_t pos = 0, produced = 0, opos = 0;
            uint64_t calls = 0, zero_run = 0;
            const uint64_t call_budget = (uint64_t)n + (16u << 20) + 64;
            bool started = false;
            for (;;) {
                size_t take = std::min(n - pos, std::max<size_t>(1, k.ichunk));
                ZSTD_inBuffer in = {src.p + pos, take, 0};
                ZSTD_outBuffer out = {ob.p, ocap, mode == 1 ? opos : 0};
                size_t o0 = out.pos;
                size_t r = ZSTD_decompressStream(d, &out, &in);
                calls++;
                if (ZSTD_isError(r)) break;
                VF_CHECK(c, in.pos <= in.size && out.pos <= out.size && out.pos >= o0, "decompressStream moved pos out of range");
                size_t used = in.pos, made = out.pos - o0;
                if (used || made) started = true;
                pos += used; produced += made;
                if (mode == 1) opos = out.pos;
                bool had_in = take > 0, had_out = o0 < ocap;
                if (had_in && had_out && !used && !made) {
                    zero_run++;
                    VF_CHECK(c, zero_run <= 16, "streaming decoder made no progress for %llu consecutive calls that had input and output room", (unsigned long long)zero_run);
                } else zero_run = 0;
                VF_CHECK(c, calls <= call_budget, "streaming decoder exceeded its call budget (%llu calls for %zu input bytes)", (unsigned long long)calls, n);
                if (r == 0) { if (pos >= n) break; if (mode == 1) break; continue; }
                if (produced > (16u << 20)) break;   // a bomb is not a violation; stop
                if (pos >= n && made == 0) break;     // input exhausted, nothing more to flush
                if (mode == 1 && out.pos == out.size && !used) break;
            }
            if (started) accepted++;
        }
    }
    // ---- buffer-less ----
    if (k.mask & 32) {
        ZSTD_DCtx_reset(d, ZSTD_reset_session_and_parameters);
        size_t r = (k.dictMode && (k.mask & 4)) ? ZSTD_decompressBegin_usingDict(d, dict.p, dict.n) : ZSTD_decompressBegin(d);
        if (!ZSTD_isError(r)) {
            vf::Buf out(cap);
            size_t pos = 0, op = 0;
            for (unsigned i = 0; i < 1000000; i++) {
                size_t need = ZSTD_nextSrcSizeToDecompress(d);
                if (need == 0 || pos + need > n) break;
                vf::Buf piece(src.p + pos, need);
                size_t w = ZSTD_decompressContinue(d, out.p + op, cap - op, piece.p, need);
                if (ZSTD_isError(w)) break;
                VF_CHECK(c, w <= cap - op, "decompressContinue wrote %zu into %zu", w, cap - op);
                pos += need; op += w;
                (void)ZSTD_nextInputType(d);
            }
        }
    }
    // ---- block level ----
    if (k.mask & 64) {
        ZSTD_DCtx_reset(d, ZSTD_reset_session_and_parameters);
        size_t r = ZSTD_decompressBegin(d);
        if (!ZSTD_isError(r)) {
            vf::Buf out(cap);
            size_t w = ZSTD_decompressBlock(d, out.p, cap, src.p, std::min<size_t>(n, ZSTD_BLOCKSIZE_MAX));
            CHECK_RET(c, w, cap, "decompressBlock");
            if (!ZSTD_isError(w)) {
                (void)ZSTD_insertBlock(d, src.p, std::min<size_t>(n, 100));
                size_t half = cap / 2;
                size_t w2 = ZSTD_decompressBlock(d, out.p + std::min(w, half), cap - std::min(w, half), src.p, std::min<size_t>(n, ZSTD_BLOCKSIZE_MAX));
                CHECK_RET(c, w2, cap - std::min(w, half), "decompressBlock#2");
            }
        }
    }
    // ---- legacy streaming wrapper ----
    if (k.mask & 128) {
        ZBUFF_DCtx* zb = ZBUFF_createDCtx();
        ZBUFF_decompressInit(zb);
        vf::Buf out(std::max<size_t>(1, k.ochunk));
        size_t pos = 0;
        for (unsigned i = 0; i < 100000 && pos < n; i++) {
            size_t dcap = out.n, sl = std::min(n - pos, std::max<size_t>(1, k.ichunk));
            size_t r = ZBUFF_decompressContinue(zb, out.p, &dcap, src.p + pos, &sl);
            if (ZSTD_isError(r)) break;
            VF_CHECK(c, dcap <= out.n && sl <= n - pos, "ZBUFF_decompressContinue moved out of range");
            pos += sl;
            if (r == 0 || (!sl && !dcap)) break;
        }
        ZBUFF_freeDCtx(zb);
    }
    c.nontrivial = accepted > 0;
    if (accepted) c.label("accepted_past_header");
    if (n >= 4) {
        uint32_t m = (uint32_t)fw::rdle(src.p, 4);
        if (m >= 0xFD2FB525u && m <= 0xFD2FB527u) c.label("legacy_magic");
        if ((m & 0xFFFFFFF0u) == 0x184D2A50u) c.label("skippable_magic");
    }
}

static Controls controls_from_back(vf::Tape& t) {
    Controls k;
    k.mask = (uint32_t)t.range_back(0, 0xFFFF);
    if (!k.mask) k.mask = 0x13;
    k.dictMode = (unsigned)t.range_back(0, 3);
    k.dictLen = (size_t)t.range_back(0, 2048);
    static const size_t caps[] = {1u << 17, 0, 1, 7, 100, 4096, 65536, 1u << 20, 300000, 131075};
    { unsigned ci = (unsigned)t.range_back(0, 15); k.cap = ci < 10 ? caps[ci] : (size_t)t.range_back(0, 700); }   // the list, or any small capacity (legacy sample frames regenerate ~240 bytes)
    k.ichunk = (size_t)t.range_back(0, 4096);
    k.ochunk = (size_t)t.range_back(0, 70000);
    k.magicless = t.range_back(0, 7) == 7;
    k.nDDicts = (unsigned)t.range_back(0, 40);
    k.seed = (uint32_t)t.range_back(0, 0xFFFF);
    return k;
}

void vf_fuzz_case(vf::Ctx& c) {
    Controls k = controls_from_back(c.t);
    std::vector<uint8_t> bytes = c.t.rest_bytes();
    if (c.odd_tail_byte) bytes.push_back(c.tail_byte);
    attack(c, bytes, k);
}

// rc arm: a valid stream, mutated
void vf_case(vf::Ctx& c) {
    vf::Tape& t = c.t;
    Controls k;
    k.mask = (uint32_t)t.range(0, 0xFFFF) | 0x12;
    k.dictMode = (unsigned)t.range(0, 3);
    k.dictLen = (size_t)t.range(0, 2048);
    static const size_t caps[] = {1u << 17, 0, 1, 7, 100, 4096, 65536, 1u << 20, 300000, 131075};
    k.cap = caps[t.range(0, 9)];
    k.ichunk = (size_t)t.range(0, 4096);
    k.ochunk = (size_t)t.range(0, 70000);
    k.nDDicts = t.chance(25) ? (unsigned)t.range(1, 40) : 0;
    k.seed = (uint32_t)t.raw();
    std::vector<uint8_t> bytes;
    if (!g_legacy.empty() && t.chance(8)) {
        // a frame of an older format version (decoded by lib/legacy), with a capacity around what it regenerates
        bytes = g_legacy[(size_t)t.range(0, g_legacy.size() - 1)];
        std::vector<uint8_t> tmp(1u << 16);
        size_t full = ZSTD_decompress(tmp.data(), tmp.size(), bytes.data(), bytes.size());
        if (!ZSTD_isError(full)) { long d = (long)t.range(0, 300) - 20; k.cap = (size_t)std::max<long>(0, (long)full - d); }
        k.magicless = false;
        c.label("legacy_format_frames");
    } else
    {
        struct Cx { ZSTD_CCtx* c = ZSTD_createCCtx(); ~Cx() { ZSTD_freeCCtx(c); } } cx;
        se::EncOpts eo;
        eo.max_content = 96u << 10;
        eo.allow_mt = false;
        if (t.chance(25)) eo.max_content = 300u << 10;   // several full blocks, literal sections beyond 64 KiB with room after them
        se::EncResult er = se::gen_stream(c, cx.c, eo);
        bytes = er.out;
        k.magicless = er.magicless;
        // capacities just below / at / above what the stream regenerates: the decoder's own space accounting is on its edge
        if (!er.frames.empty() && t.chance(40)) {
            size_t total = er.frames.back().dEnd;
            size_t d = (size_t)t.pick<size_t>({0, 1, 2, 7, 31, 32, 33, 100, 1000, 4096, 40000});
            k.cap = t.chance(80) ? (total > d ? total - d : 0) : total + d;
            c.label("capacity_near_regenerated_size");
        }
        if (const char* dd = getenv("VF_DUMP_CORPUS")) {
            if (bytes.size() <= 3000 && !er.magicless) {
                char nm[256]; snprintf(nm, sizeof nm, "%s/g-%016llx", dd, (unsigned long long)vf::fnv64(bytes.data(), bytes.size()));
                // control words at the end so the fuzz entry sees a sane configuration
                FILE* f = fopen(nm, "wb");
                if (f) { fwrite(bytes.data(), 1, bytes.size(), f); if (bytes.size() & 1) fputc(0, f); uint16_t ctl[9] = {0x3F3, 0, 0, 7, 0, 0, 0, 0, 0x37}; for (int i = 8; i >= 0; i--) fwrite(&ctl[i], 2, 1, f); fclose(f); }
            }
        }
    }
    c.desc += " | mutations:";
    unsigned nm = (unsigned)t.weighted({1, 4, 3, 2, 1, 1});
    for (unsigned i = 0; i < nm && !bytes.empty(); i++) {
        size_t at = (size_t)t.range(0, bytes.size() - 1);
        switch (t.weighted({4, 2, 2, 2, 2, 2, 2})) {
            case 0: bytes[at] ^= (uint8_t)(1u << t.range(0, 7)); c.note(" flip@%zu", at); break;
            case 1: bytes[at] = (uint8_t)t.range(0, 255); c.note(" set@%zu", at); break;
            case 2: bytes.resize(at); c.note(" trunc@%zu", at); break;
            case 3: bytes.insert(bytes.begin() + (long)at, (uint8_t)t.range(0, 255)); c.note(" ins@%zu", at); break;
            case 4: bytes.erase(bytes.begin() + (long)at); c.note(" del@%zu", at); break;
            case 5: {  // overwrite with a boundary value
                static const uint32_t vals[] = {0, 0xFFFFFFFFu, 0x80000000u, 0x7FFFFFFFu, 0x00FFFFFFu, 0x1FFFFF, 0x20000, 0xFD2FB528u, 0xFD2FB527u, 0x184D2A50u};
                uint32_t v = vals[t.range(0, 9)];
                for (unsigned b = 0; b < 4 && at + b < bytes.size(); b++) bytes[at + b] = (uint8_t)(v >> (8 * b));
                c.note(" u32@%zu", at);
                break;
            }
            default: {  // splice: copy a stretch from elsewhere
                size_t from = (size_t)t.range(0, bytes.size() - 1), len = (size_t)t.range(1, 64);
                for (size_t b = 0; b < len && at + b < bytes.size() && from + b < bytes.size(); b++) bytes[at + b] = bytes[from + b];
                c.note(" splice@%zu", at);
                break;
            }
        }
    }
    // structural mutation of the first bytes a decoder trusts most: block headers
    if (t.chance(30)) {
        fw::Frame f = fw::walk(bytes.data(), bytes.size(), k.magicless);
        if (!f.blocks.empty()) {
            auto& b = f.blocks[t.range(0, f.blocks.size() - 1)];
            uint32_t bh = (uint32_t)fw::rdle(&bytes[b.hdr_off], 3);
            switch (t.range(0, 3)) {
                case 0: bh ^= 1; break;                          // last-block bit
                case 1: bh = (bh & ~6u) | ((uint32_t)t.range(0, 3) << 1); break;  // type
                case 2: bh = (bh & 7) | ((uint32_t)t.range(0, 0x1FFFFF) << 3); break;  // size
                default: bh = (bh & 7) | ((uint32_t)(b.size + t.range(0, 2) - 1) << 3); break;
            }
            for (unsigned i = 0; i < 3; i++) bytes[b.hdr_off + i] = (uint8_t)(bh >> (8 * i));
            c.note(" blockhdr@%zu", b.hdr_off);
        }
    }
    attack(c, bytes, k);
}
