// C04 - every decoding path yields the specified output for every valid frame.
// The same frame goes through every decode path of every decoder BUILD VARIANT linked into this one binary
// (symbols renamed per variant by objcopy), and is compared with the independent decoder R.
#define ZDICT_STATIC_LINKING_ONLY
#include "zdict.h"
#include "stream_engine.hpp"
#include "conformance.hpp"
#include "framesynth.hpp"

const char* vf_property_id() { return "C04"; }
static bool g_thorough = false;
static std::vector<uint8_t> g_golden;
static std::vector<uint8_t> slurp(const std::string& p) { std::vector<uint8_t> v; FILE* f = fopen(p.c_str(), "rb"); if (!f) return v; uint8_t b[4096]; size_t r; while ((r = fread(b, 1, sizeof b, f)) > 0) v.insert(v.end(), b, b + r); fclose(f); return v; }
void vf_setup() {
    const char* e = getenv("VERIF_TIER"); g_thorough = e && !strcmp(e, "thorough");
    const char* repo = getenv("VERIF_REPO"); g_golden = slurp(std::string(repo ? repo : "/repo") + "/tests/golden-dictionaries/http-dict-missing-symbols");
}

// ---- one decoder API table per build variant ----
struct DecApi {
    const char* name;
    void* (*createDCtx)(void); size_t (*freeDCtx)(void*);
    size_t (*decompressDCtx)(void*, void*, size_t, const void*, size_t);
    size_t (*decompressStream)(void*, ZSTD_outBuffer*, ZSTD_inBuffer*);
    size_t (*setParameter)(void*, int, int); size_t (*reset)(void*, int);
    size_t (*decompressBegin)(void*); size_t (*nextSrcSize)(void*);
    size_t (*decompressContinue)(void*, void*, size_t, const void*, size_t);
    size_t (*margin)(const void*, size_t);
    void* (*createDDict)(const void*, size_t); size_t (*freeDDict)(void*);
    size_t (*usingDDict)(void*, void*, size_t, const void*, size_t, const void*);
    size_t (*usingDict)(void*, void*, size_t, const void*, size_t, const void*, size_t);
    size_t (*beginUsingDict)(void*, const void*, size_t);
    unsigned (*isError)(size_t); const char* (*errName)(size_t);
};
#define DECL_VARIANT(P) extern "C" { \
    void* P##ZSTD_createDCtx(void); size_t P##ZSTD_freeDCtx(void*); size_t P##ZSTD_decompressDCtx(void*, void*, size_t, const void*, size_t); \
    size_t P##ZSTD_decompressStream(void*, ZSTD_outBuffer*, ZSTD_inBuffer*); size_t P##ZSTD_DCtx_setParameter(void*, int, int); size_t P##ZSTD_DCtx_reset(void*, int); \
    size_t P##ZSTD_decompressBegin(void*); size_t P##ZSTD_nextSrcSizeToDecompress(void*); size_t P##ZSTD_decompressContinue(void*, void*, size_t, const void*, size_t); \
    size_t P##ZSTD_decompressionMargin(const void*, size_t); void* P##ZSTD_createDDict(const void*, size_t); size_t P##ZSTD_freeDDict(void*); \
    size_t P##ZSTD_decompress_usingDDict(void*, void*, size_t, const void*, size_t, const void*); size_t P##ZSTD_decompress_usingDict(void*, void*, size_t, const void*, size_t, const void*, size_t); \
    size_t P##ZSTD_decompressBegin_usingDict(void*, const void*, size_t); unsigned P##ZSTD_isError(size_t); const char* P##ZSTD_getErrorName(size_t); }
#define API_OF(P, NAME) {NAME, P##ZSTD_createDCtx, P##ZSTD_freeDCtx, P##ZSTD_decompressDCtx, P##ZSTD_decompressStream, P##ZSTD_DCtx_setParameter, P##ZSTD_DCtx_reset, P##ZSTD_decompressBegin, \
    P##ZSTD_nextSrcSizeToDecompress, P##ZSTD_decompressContinue, P##ZSTD_decompressionMargin, P##ZSTD_createDDict, P##ZSTD_freeDDict, P##ZSTD_decompress_usingDDict, P##ZSTD_decompress_usingDict, P##ZSTD_decompressBegin_usingDict, P##ZSTD_isError, P##ZSTD_getErrorName}
DECL_VARIANT(dX1_) DECL_VARIANT(dX2_) DECL_VARIANT(dNoAsm_) DECL_VARIANT(dNoFast_) DECL_VARIANT(dNoBmi2_) DECL_VARIANT(dLong_) DECL_VARIANT(dShort_) DECL_VARIANT(dNoLegacy_) DECL_VARIANT(dNoInl_)
static size_t m_setParameter(void* d, int p, int v) { return ZSTD_DCtx_setParameter((ZSTD_DCtx*)d, (ZSTD_dParameter)p, v); }
static size_t m_reset(void* d, int r) { return ZSTD_DCtx_reset((ZSTD_DCtx*)d, (ZSTD_ResetDirective)r); }
static const DecApi APIS[] = {
    {"default", (void* (*)())ZSTD_createDCtx, (size_t (*)(void*))ZSTD_freeDCtx, (size_t (*)(void*, void*, size_t, const void*, size_t))ZSTD_decompressDCtx, (size_t (*)(void*, ZSTD_outBuffer*, ZSTD_inBuffer*))ZSTD_decompressStream,
     m_setParameter, m_reset, (size_t (*)(void*))ZSTD_decompressBegin, (size_t (*)(void*))ZSTD_nextSrcSizeToDecompress, (size_t (*)(void*, void*, size_t, const void*, size_t))ZSTD_decompressContinue, ZSTD_decompressionMargin,
     (void* (*)(const void*, size_t))ZSTD_createDDict, (size_t (*)(void*))ZSTD_freeDDict, (size_t (*)(void*, void*, size_t, const void*, size_t, const void*))ZSTD_decompress_usingDDict,
     (size_t (*)(void*, void*, size_t, const void*, size_t, const void*, size_t))ZSTD_decompress_usingDict, (size_t (*)(void*, const void*, size_t))ZSTD_decompressBegin_usingDict, ZSTD_isError, ZSTD_getErrorName},
    API_OF(dX1_, "HUF_FORCE_DECOMPRESS_X1"), API_OF(dX2_, "HUF_FORCE_DECOMPRESS_X2"), API_OF(dNoAsm_, "ZSTD_DISABLE_ASM"), API_OF(dNoFast_, "HUF_DISABLE_FAST_DECODE"),
    API_OF(dNoBmi2_, "DYNAMIC_BMI2=0"), API_OF(dLong_, "FORCE_DECOMPRESS_SEQUENCES_LONG"), API_OF(dShort_, "FORCE_DECOMPRESS_SEQUENCES_SHORT"), API_OF(dNoLegacy_, "LEGACY_SUPPORT=0"), API_OF(dNoInl_, "ZSTD_NO_INLINE"),
};
static const int NAPI = (int)(sizeof APIS / sizeof *APIS);

static const size_t NA = (size_t)-1000, PSEUDO = (size_t)-2000;   // harness-side outcomes, outside the library's error code range
enum Path { P_ONESHOT = 0, P_STREAM, P_STREAM_TINY, P_STABLE_OUT, P_CONTINUE, P_INPLACE, P_DDICT_COLD, P_DDICT_WARM, P_NOASM_PARAM, P_NPATHS };
static const char* path_name[] = {"one-shot", "stream(segmented)", "stream(1-byte)", "stableOutBuffer", "decompressContinue", "in-place", "DDict cold", "DDict warm", "disableHuffmanAssembly"};

// returns decoded size or an error code of that variant; out holds the bytes
static size_t decode_path(const DecApi& A, int path, const uint8_t* f, size_t n, const std::vector<uint8_t>& dict, size_t expect, std::vector<uint8_t>& out, size_t ichunk, size_t ochunk, bool magicless) {
    void* d = A.createDCtx();
    struct G { const DecApi& A; void* d; ~G() { A.freeDCtx(d); } } g{A, d};
    if (magicless) A.setParameter(d, ZSTD_d_format, ZSTD_f_zstd1_magicless);
    A.setParameter(d, ZSTD_d_windowLogMax, 31);
    out.assign(expect + 64, 0xCD);
    vf::Buf src(f, n);
    switch (path) {
        case P_ONESHOT: case P_NOASM_PARAM: {
            if (path == P_NOASM_PARAM) A.setParameter(d, ZSTD_d_disableHuffmanAssembly, 1);
            vf::Buf o(expect);
            size_t r = dict.empty() ? A.decompressDCtx(d, o.p, o.n, src.p, n) : A.usingDict(d, o.p, o.n, src.p, n, dict.data(), dict.size());
            if (!A.isError(r)) out.assign(o.p, o.p + r);
            return r;
        }
        case P_STREAM: case P_STREAM_TINY: case P_STABLE_OUT: {
            if (!dict.empty()) { void* dd = A.createDDict(dict.data(), dict.size()); (void)dd; }
            if (!dict.empty()) return NA;   // dictionary streaming is covered through usingDict/DDict paths
            if (path == P_STABLE_OUT) A.setParameter(d, ZSTD_d_stableOutBuffer, 1);
            size_t ic = path == P_STREAM_TINY ? 1 : std::max<size_t>(1, ichunk), oc = path == P_STREAM_TINY ? 1 : std::max<size_t>(1, ochunk);
            vf::Buf stable(expect + 8);
            std::vector<uint8_t> acc;
            size_t pos = 0, spos = 0;
            unsigned stall = 0;
            for (unsigned long guard = 0; guard < 50000000ul; guard++) {
                size_t take = std::min(ic, n - pos);
                ZSTD_inBuffer in = {src.p + pos, take, 0};
                vf::Buf ob(path == P_STABLE_OUT ? 0 : oc);
                ZSTD_outBuffer o = path == P_STABLE_OUT ? ZSTD_outBuffer{stable.p, stable.n, spos} : ZSTD_outBuffer{ob.p, oc, 0};
                size_t o0 = o.pos;
                size_t r = A.decompressStream(d, &o, &in);
                if (A.isError(r)) return r;
                if (path == P_STABLE_OUT) spos = o.pos; else acc.insert(acc.end(), ob.p, ob.p + o.pos);
                pos += in.pos;
                if (r == 0) { if (path == P_STABLE_OUT) acc.assign(stable.p, stable.p + spos); if (pos < n && path != P_STABLE_OUT) continue;   /* next frame of a multi-frame input */ out = acc; return pos == n ? acc.size() : (size_t)(PSEUDO - 2); }
                if (in.pos == 0 && o.pos == o0) { if (++stall > 4) return (size_t)(PSEUDO - 3); } else stall = 0;
                if (pos >= n && o.pos == o0) return (size_t)(PSEUDO - 4);   // input exhausted, frame not complete
            }
            return (size_t)(PSEUDO - 5);
        }
        case P_CONTINUE: {
            size_t r = dict.empty() ? A.decompressBegin(d) : A.beginUsingDict(d, dict.data(), dict.size());
            if (A.isError(r)) return r;
            vf::Buf o(expect + 1);
            size_t pos = 0, op = 0;
            for (unsigned long guard = 0; guard < 10000000ul; guard++) {
                size_t need = A.nextSrcSize(d);
                if (need == 0) break;
                if (pos + need > n) return (size_t)(PSEUDO - 6);
                vf::Buf piece(src.p + pos, need);
                size_t w = A.decompressContinue(d, o.p + op, o.n - op, piece.p, need);
                if (A.isError(w)) return w;
                pos += need; op += w;
            }
            out.assign(o.p, o.p + op);
            return pos == n ? op : (size_t)(PSEUDO - 7);
        }
        case P_INPLACE: {
            if (magicless) return NA;   // ZSTD_decompressionMargin has no format parameter
            size_t m = A.margin(src.p, n);
            if (A.isError(m)) return m;
            vf::Buf buf(expect + m);
            uint8_t* cpos = buf.p + buf.n - n;
            memmove(cpos, src.p, n);
            size_t r = dict.empty() ? A.decompressDCtx(d, buf.p, buf.n, cpos, n) : A.usingDict(d, buf.p, buf.n, cpos, n, dict.data(), dict.size());
            if (!A.isError(r)) out.assign(buf.p, buf.p + r);
            return r;
        }
        default: {   // DDict cold (first use) / warm (second use of the same DDict)
            if (dict.empty()) return NA;
            void* dd = A.createDDict(dict.data(), dict.size());
            if (!dd) return (size_t)(PSEUDO - 8);
            vf::Buf o(expect);
            size_t r = A.usingDDict(d, o.p, o.n, src.p, n, dd);
            if (path == P_DDICT_WARM && !A.isError(r)) r = A.usingDDict(d, o.p, o.n, src.p, n, dd);
            if (!A.isError(r)) out.assign(o.p, o.p + r);
            A.freeDDict(dd);
            return r;
        }
    }
}

// KF-C04-inplace-margin (open finding): ZSTD_decompressionMargin() assumes that no Compressed_Block is as large as what it
// regenerates (true for every frame the bundled compressor emits, not required by the format). For frames that have such a
// block the in-place path may report dstSize_tooSmall; that exact shape is excluded from the in-place path and counted.
static bool g_expanding_block = false;
static void note_blocks(void*, const edu_event_t* ev) { if (ev->kind == EDU_EV_BLOCK && ev->block_type == 2 && ev->block_size >= ev->block_regen) g_expanding_block = true; }
static void all_paths(vf::Ctx& c, const uint8_t* f, size_t n, const std::vector<uint8_t>& dict, const std::vector<uint8_t>& expect, bool magicless, bool must_accept, const char* origin, unsigned nframes = 1) {
    vf::Tape& t = c.t;
    size_t ichunk = (size_t)t.range(1, 5000), ochunk = (size_t)t.range(1, 140000);
    unsigned accepted = 0, rejected = 0;
    uint32_t m = (uint32_t)fw::rdle(f, n >= 4 ? 4 : 0);
    bool legacyMagic = n >= 4 && m >= 0xFD2FB525u && m <= 0xFD2FB527u;
    for (int vi = 0; vi < NAPI; vi++) {
        const DecApi& A = APIS[vi];
        if (legacyMagic && !strcmp(A.name, "LEGACY_SUPPORT=0")) continue;
        // all paths on the default build; a tape-chosen half of them on each other variant (cost)
        for (int p = 0; p < P_NPATHS; p++) {
            if (vi > 0 && p != P_ONESHOT && p != P_STREAM && !t.chance(45)) continue;
            if (p == P_STREAM_TINY && n > 60000) continue;
            if (nframes > 1 && (p == P_STABLE_OUT || p == P_CONTINUE)) continue;   // these two paths decode exactly one frame per session
            if (p == P_INPLACE && g_expanding_block) { if (vi == 0) c.label("excluded:KF-C04-inplace-margin"); continue; }
            std::vector<uint8_t> out;
            size_t r = decode_path(A, p, f, n, dict, expect.size(), out, ichunk, ochunk, magicless);
            if (r == NA) continue;   // path not applicable
            c.label("path_evaluations");
            bool pseudo = r <= PSEUDO && r > PSEUDO - 100;
            bool err = A.isError(r) || pseudo;
            if (err) {
                rejected++;
                if (must_accept) c.fail("[%s] a frame that is valid by construction and accepted by the independent decoder is rejected by build '%s', path '%s': %s", origin, A.name, path_name[p], pseudo ? "incomplete/extra input" : A.errName(r));
                // R accepts: the library must not reject either (frames here are R-valid)
                c.fail("[%s] the independent strict decoder accepts this frame (%zu bytes -> %zu) but build '%s', path '%s' rejects it: %s", origin, n, expect.size(), A.name, path_name[p], pseudo ? "incomplete/extra input" : A.errName(r));
            }
            accepted++;
            if (out.size() != expect.size() || (expect.size() && memcmp(out.data(), expect.data(), expect.size()))) {
                size_t i = 0; while (i < out.size() && i < expect.size() && out[i] == expect[i]) i++;
                c.fail("[%s] build '%s', path '%s' regenerates %zu bytes, the specification (independent decoder) says %zu; first difference at %zu", origin, A.name, path_name[p], out.size(), expect.size(), i);
            }
        }
    }
    (void)rejected;
    c.label("frames_through_all_variants");
}

void vf_case(vf::Ctx& c) {
    vf::Tape& t = c.t;
    int how = (int)t.weighted({4, 3, 5});   // real encoder | real encoder + dictionary | synthesised frame
    std::vector<uint8_t> frame, x, dict;
    bool magicless = false;
    const char* origin;
    if (how == 2) {
        fsyn::Synth sy = fsyn::gen_frame(t);
        frame = sy.bytes; x = sy.content;
        origin = "synth";
        c.note("synth{%s} ", sy.desc.c_str());
        if (const char* dp = getenv("VF_C04_DUMP")) { FILE* df = fopen(dp, "wb"); if (df) { fwrite(frame.data(), 1, frame.size(), df); fclose(df); } }   // triage aid
        for (auto& l : sy.features) c.label("synth:" + l);
        // three-way: the synthesiser's own expected bytes vs R. A disagreement between the two independent sides is a machinery bug.
        vf::Buf o(x.size() + 16);
        edu_opts_t eo; memset(&eo, 0, sizeof eo); eo.strict = 1; eo.cb = note_blocks; g_expanding_block = false;
        edu_result_t rr = edu_decompress(o.p, o.n, frame.data(), frame.size(), nullptr, 0, &eo);
        if (!rr.ok || rr.produced != x.size() || (x.size() && memcmp(o.p, x.data(), x.size()))) {
            c.label("MACHINERY:synth_vs_R_disagree");
            c.fail("MACHINERY BUG (not a finding about the library): the frame synthesiser and the independent decoder disagree: %s", rr.ok ? "content differs" : rr.err);
        }
        all_paths(c, frame.data(), frame.size(), dict, x, false, true, origin);
        c.nontrivial = !sy.features.empty();
        return;
    }
    struct Cx { ZSTD_CCtx* c = ZSTD_createCCtx(); ~Cx() { ZSTD_freeCCtx(c); } } k;
    if (how == 0) {
        se::EncOpts eo; eo.max_content = g_thorough ? (2u << 20) : (300u << 10); eo.allow_mt = false; eo.allow_multi_frame = false;   // one frame: every path below decodes exactly one frame
        se::EncResult er = se::gen_stream(c, k.c, eo);
        frame = er.out; x = er.all(); magicless = er.magicless;
        origin = "encoder";
    } else {
        gen::ParamSet ps = gen::gen_params(t, false, 4);
        { std::vector<gen::PV> kk; for (auto& q : ps.v) if (q.p != ZSTD_c_format) kk.push_back(q); ps.v = kk; }
        if (gen::estimate_mem(ps) > (400ull << 20)) c.discard("memcap");
        gen::apply_params(k.c, ps, &c);
        size_t odd_rep_hdr = 0;
        dict = t.flip() ? g_golden : gen::gen_content_sized(t, (size_t)t.range(8, 100000));
        if (dict.size() >= 4 && dict != g_golden && dict[0] == 0x37 && dict[1] == 0xA4) dict[0] = 1;
        if (dict == g_golden && t.chance(60)) {
            // the full dictionary with other start-of-frame repeat offsets than the trainers' {1,4,8} (the 12 bytes before its content)
            size_t hs0 = ZDICT_getDictHeaderSize(dict.data(), dict.size());
            if (!ZDICT_isError(hs0) && hs0 >= 20 && hs0 < dict.size()) {
                size_t content = dict.size() - hs0;
                for (unsigned i = 0; i < 3; i++) { uint32_t v = (uint32_t)t.range(1, std::min<size_t>(content, t.flip() ? 16 : 70000)); for (unsigned b = 0; b < 4; b++) dict[hs0 - 12 + 4 * i + b] = (uint8_t)(v >> (8 * b)); }
                c.label("dictionary_with_odd_repeat_offsets");
                odd_rep_hdr = hs0;
            }
        }
        int lvl = ps.get(ZSTD_c_compressionLevel, 3), strat = ps.get(ZSTD_c_strategy, 0);
        x = gen::gen_content(t, (lvl >= 16 || strat >= 7) ? (100u << 10) : (300u << 10));
        if (dict.size() > 300 && x.size() > 600) memcpy(&x[t.range(0, x.size() - 300)], &dict[dict.size() - 280], 280);
        if (t.chance(30) && gen::continue_dict_tail(t, dict, x)) c.label("content_continues_dictionary_tail");
        if (odd_rep_hdr && t.chance(60)) {
            // the frame's first match sits at the dictionary's 2nd or 3rd stored repeat offset, after a few literals: the encoder
            // can only code it as a repeat offset if both sides start the frame with the same three values
            unsigned kx = (unsigned)t.range(1, 2); uint32_t R = 0; for (unsigned b = 0; b < 4; b++) R |= (uint32_t)dict[odd_rep_hdr - 12 + 4 * kx + b] << (8 * b);
            size_t q = (size_t)t.range(1, 8), L = (size_t)t.range(20, 300), dc = dict.size();
            if (R >= 1 && R <= dc - odd_rep_hdr) {
                if (x.size() < q + L) x.resize(q + L, (uint8_t)'y');
                for (size_t i = q; i < q + L; i++) x[i] = i >= R ? x[i - R] : dict[dc - R + i];
                c.label("content_starts_at_dictionary_repeat_offset_2_or_3");
            }
        }
        size_t r = ZSTD_CCtx_loadDictionary(k.c, dict.data(), dict.size());
        if (ZSTD_isError(r)) c.discard("dict_refused");
        frame.resize(ZSTD_compressBound(x.size()));
        size_t n = ZSTD_compress2(k.c, frame.data(), frame.size(), x.data(), x.size());
        if (ZSTD_isError(n)) c.discard("compress_refused");
        frame.resize(n);
        origin = "encoder+dict";
        c.note("dict %zuB %s ", dict.size(), ps.str().c_str());
    }
    // optionally mutate; keep only what strict R still accepts (then R's output IS the specified content)
    bool mutated = false;
    if (t.chance(35) && frame.size() > 12) {
        unsigned k2 = (unsigned)t.range(1, 3);
        for (unsigned i = 0; i < k2; i++) { size_t at = (size_t)t.range(4, frame.size() - 1); if (t.flip()) frame[at] ^= (uint8_t)(1u << t.range(0, 7)); else frame[at] = (uint8_t)t.range(0, 255); }
        mutated = true;
    }
    std::vector<uint8_t> spec(x.size() + (mutated ? (1u << 20) : 16));
    edu_opts_t eo; memset(&eo, 0, sizeof eo); eo.strict = 1; eo.magicless = magicless; eo.cb = note_blocks; g_expanding_block = false;
    edu_result_t rr = edu_decompress(spec.data(), spec.size(), frame.data(), frame.size(), dict.empty() ? nullptr : dict.data(), dict.size(), &eo);
    if (!rr.ok) {
        if (mutated) { c.label("mutant_rejected_by_R(nothing asserted beyond C03)"); return; }
        if (strstr(rr.err, "dictionary Huffman tree")) { c.label("dictionary_outside_spec"); return; }
        c.fail("the independent strict decoder rejects an unmutated library frame: %s", rr.err);
    }
    spec.resize(rr.produced);
    if (!mutated) VF_CHECK(c, spec == x, "independent decoder output differs from the input");
    if (mutated) c.label("mutants_accepted_by_R");
    all_paths(c, frame.data(), frame.size(), dict, spec, magicless, false, mutated ? "mutated" : origin);
    c.nontrivial = true;
}

// fuzz arm: arbitrary bytes; when strict R accepts, every path of every variant must produce R's bytes
void vf_fuzz_case(vf::Ctx& c) {
    std::vector<uint8_t> bytes = c.t.rest_bytes();
    std::vector<uint8_t> spec(1u << 20);
    edu_opts_t eo; memset(&eo, 0, sizeof eo); eo.strict = 1; eo.cb = note_blocks; g_expanding_block = false;
    edu_result_t rr = edu_decompress(spec.data(), spec.size(), bytes.data(), bytes.size(), nullptr, 0, &eo);
    if (!rr.ok || rr.nframes == 0) { c.label("R_rejects"); return; }
    spec.resize(rr.produced);
    std::vector<uint8_t> nodict;
    vf::Tape t2 = c.t;   // path choices from the same bytes (deterministic)
    all_paths(c, bytes.data(), bytes.size(), nodict, spec, false, false, "fuzz", rr.nframes);
    c.nontrivial = true;
}
