// C05 - everything the compressor emits is a conformant, truthful Zstandard frame (judged by the independent decoder R).
#include "stream_engine.hpp"
#include "conformance.hpp"

const char* vf_property_id() { return "C05"; }
static bool g_thorough = false;
static std::vector<uint8_t> g_golden_dict;
static std::vector<uint8_t> slurp(const std::string& p) { std::vector<uint8_t> v; FILE* f = fopen(p.c_str(), "rb"); if (!f) return v; uint8_t b[4096]; size_t r; while ((r = fread(b, 1, sizeof b, f)) > 0) v.insert(v.end(), b, b + r); fclose(f); return v; }
void vf_setup() {
    const char* e = getenv("VERIF_TIER"); g_thorough = e && !strcmp(e, "thorough");
    const char* repo = getenv("VERIF_REPO");
    g_golden_dict = slurp(std::string(repo ? repo : "/repo") + "/tests/golden-dictionaries/http-dict-missing-symbols");
}

static void splice_dict(vf::Tape& t, std::vector<uint8_t>& x, const std::vector<uint8_t>& dict_content, size_t window) {
    if (dict_content.size() < 16 || x.size() < 32) return;
    unsigned k = (unsigned)t.range(1, 6);
    for (unsigned i = 0; i < k; i++) {
        size_t len = std::min<size_t>((size_t)t.range(8, 600), dict_content.size());
        size_t from = (size_t)t.range(0, dict_content.size() - len);
        size_t at;
        switch (t.weighted({2, 3, 2})) {
            case 0: at = (size_t)t.range(0, x.size() - 1); break;
            case 1: at = window + (size_t)t.range(0, 300) - 150; break;   // around the point where the dictionary leaves the window
            default: at = window + (size_t)t.range(0, 131072); break;
        }
        if (at >= x.size()) at = x.size() - 1;
        len = std::min(len, x.size() - at);
        memcpy(&x[at], &dict_content[from], len);
    }
}

void vf_case(vf::Ctx& c) {
    vf::Tape& t = c.t;
    struct Ctxs { ZSTD_CCtx* c = ZSTD_createCCtx(); ~Ctxs() { ZSTD_freeCCtx(c); } } k;
    ZSTD_CCtx* cctx = k.c;
    int how = (int)t.weighted({5, 3, 2});
    conform::Expect ex;
    std::vector<uint8_t> frames, x, dictv;
    if (how == 1) {
        // streaming engine: any flavour, multi-frame, MT
        se::EncOpts eo; eo.thorough = g_thorough; eo.max_content = g_thorough ? (4u << 20) : (600u << 10);
        se::EncResult er = se::gen_stream(c, cctx, eo);
        frames = er.out; x = er.all(); ex.magicless = er.magicless;
        c.label("how:stream");
        if (er.nbWorkers) c.label("mt");
    } else {
        gen::ParamSet ps = gen::gen_params(t, g_thorough);
        // conformance is about windows: small windows and inputs longer than them are weighted up
        if (!ps.has(ZSTD_c_windowLog) && t.chance(60)) ps.v.push_back({ZSTD_c_windowLog, (int)t.range(10, 17), "windowLog"});
        if (gen::estimate_mem(ps) > (700ull << 20)) c.discard("memcap");
        int wl = ps.get(ZSTD_c_windowLog, 0);
        size_t window = wl ? (size_t)1 << wl : (size_t)1 << 21;
        int lvl = ps.get(ZSTD_c_compressionLevel, 3), strat = ps.get(ZSTD_c_strategy, 0);
        size_t maxsz = (lvl >= 16 || strat >= 7) ? (256u << 10) : (g_thorough ? (4u << 20) : (700u << 10));
        gen::ContentInfo ci;
        x = gen::gen_content(t, maxsz, &ci, window);
        // dictionary
        int dk = (how == 2) ? (int)t.weighted({0, 3, 3, 2}) : 0;   // 0 none, 1 raw content, 2 golden formatted, 3 raw via refPrefix
        std::vector<uint8_t> dict_content;
        if (dk == 1 || dk == 3) { gen::ContentInfo di; dictv = gen::gen_content_sized(t, (size_t)t.range(8, 40000), &di); dict_content = dictv; }
        if (dk == 2) { dictv = g_golden_dict; if (dictv.size() > 300) dict_content.assign(dictv.begin() + 200, dictv.end()); }
        if (dk) splice_dict(t, x, dict_content, window);
        gen::apply_params(cctx, ps, &c);
        ex.magicless = ps.get(ZSTD_c_format, 0) == 1;
        ex.maxBlockSize = (size_t)ps.get(ZSTD_c_maxBlockSize, 0);
        ex.expect_checksum = ps.get(ZSTD_c_checksumFlag, 0);
        ex.expect_fcs = ps.get(ZSTD_c_contentSizeFlag, 1) ? 1 : 0;
        if (wl) ex.max_window = (unsigned long long)1 << wl;
        int mode = 0;
        if (dk == 1 || dk == 2) {
            mode = (int)t.range(0, 3);
            size_t r = 0;
            if (mode == 0) r = ZSTD_CCtx_loadDictionary(cctx, dictv.data(), dictv.size());
            else if (mode == 1) r = ZSTD_CCtx_loadDictionary_byReference(cctx, dictv.data(), dictv.size());
            else if (mode == 2) {
                static ZSTD_CDict* cd = nullptr; if (cd) { ZSTD_freeCDict(cd); cd = nullptr; }
                cd = ZSTD_createCDict(dictv.data(), dictv.size(), lvl);
                if (!cd) c.discard("cdict_refused");
                r = ZSTD_CCtx_refCDict(cctx, cd);
            } else {
                int attach = (int)t.range(0, 3);
                ZSTD_CCtx_setParameter(cctx, ZSTD_c_forceAttachDict, attach);
                r = ZSTD_CCtx_loadDictionary(cctx, dictv.data(), dictv.size());
            }
            if (ZSTD_isError(r)) c.discard("dict_refused");
            ex.expect_dictID = (dk == 2 && ps.get(ZSTD_c_dictIDFlag, 1)) ? (long long)ZSTD_getDictID_fromDict(dictv.data(), dictv.size()) : 0;
        } else if (dk == 3) {
            size_t r = ZSTD_CCtx_refPrefix(cctx, dictv.data(), dictv.size());
            if (ZSTD_isError(r)) c.discard("prefix_refused");
            ex.expect_dictID = 0;
        } else ex.expect_dictID = 0;
        vf::Buf dst(ZSTD_compressBound(x.size()));
        size_t n = ZSTD_compress2(cctx, dst.p, dst.n, x.data(), x.size());
        if (ZSTD_isError(n)) { if (se::is_clean_refusal(n)) c.discard("clean_refusal"); c.fail("compress2: %s", ZSTD_getErrorName(n)); }
        frames.assign(dst.p, dst.p + n);
        c.note("oneshot %s %s dict=%d/%zuB mode=%d", ps.str().c_str(), ci.summary().c_str(), dk, dictv.size(), mode);
        c.label(dk ? "how:oneshot_dict" : "how:oneshot");
        if (x.size() > window) c.label("input_longer_than_window");
    }
    std::vector<conform::FrameFacts> facts;
    bool dict_bad = false;
    std::string v = conform::check(frames.data(), frames.size(), x.data(), x.size(), dictv.empty() ? nullptr : dictv.data(), dictv.size(), ex, &facts, &dict_bad);
    if (dict_bad) c.label("dictionary_outside_spec(12-bit huffman): conformance not asserted");
    VF_CHECK(c, v.empty(), "%s", v.c_str());
    bool nt = false;
    for (auto& f : facts) {
        if (f.n_comp) c.label("frames_with_compressed_block");
        if (f.seq_from_dict) { c.label("frames_with_dictionary_matches"); nt = true; }
        if (f.content > f.window && f.seq_beyond_half_window) { c.label("frames_where_window_rule_could_fail"); nt = true; }
        if (f.seq_at_window) c.label("frames_with_offset_equal_window");
        if (f.nblocks > 1) { nt = true; }
        if (f.treeless) c.label("frames_with_treeless_literals");
        if (f.repeat_tables) c.label("frames_with_repeat_tables");
        if (f.tiny_tail_candidates) c.label("blocks_checked_for_tiny_fse_tail", f.tiny_tail_candidates);
        if (f.n_rle) c.label("frames_with_rle_block");
        c.maxi("max_offset", f.max_offset);
    }
    c.nontrivial = nt;
}
