// C06 - capacity discipline and size bounds.
#include "stream_engine.hpp"
#include <set>

const char* vf_property_id() { return "C06"; }
static bool g_thorough = false;
void vf_setup() { const char* e = getenv("VERIF_TIER"); g_thorough = e && !strcmp(e, "thorough"); }

static std::vector<uint8_t> bound_hunt_content(vf::Tape& t, size_t n) {
    // content aimed at the bound itself: incompressible, or statistics alternating every 8-16 KiB
    std::vector<uint8_t> v(n);
    gen::Xs x(t.raw() + 99);
    int mode = (int)t.range(0, 2);
    size_t seg = (size_t)t.range(8, 16) * 1024;
    for (size_t i = 0; i < n; i++) {
        uint32_t r = x.next();
        if (mode == 0) v[i] = (uint8_t)r;
        else if (mode == 1) v[i] = ((i / seg) & 1) ? (uint8_t)r : (uint8_t)(r % 3 + 'a');
        else v[i] = ((i / seg) & 1) ? (uint8_t)(r & 0x0F) : (uint8_t)((r & 0x0F) << 4);
    }
    return v;
}

static size_t do_compress(int entry, ZSTD_CCtx* cctx, gen::ParamSet& ps, uint8_t* dst, size_t cap, const uint8_t* src, size_t n) {
    int lvl = ps.get(ZSTD_c_compressionLevel, 3);
    switch (entry) {
        case 0: return ZSTD_compress2(cctx, dst, cap, src, n);
        case 1: return ZSTD_compressCCtx(cctx, dst, cap, src, n, lvl);
        case 2: return ZSTD_compress(dst, cap, src, n, lvl);
        default: {  // streaming, stable output buffer, one e_end loop
            ZSTD_inBuffer in = {src, n, 0};
            ZSTD_outBuffer out = {dst, cap, 0};
            for (unsigned i = 0; i < 100000; i++) {
                size_t r = ZSTD_compressStream2(cctx, &out, &in, ZSTD_e_end);
                if (ZSTD_isError(r)) return r;
                if (r == 0) return out.pos;
                if (out.pos == out.size) return (size_t)-ZSTD_error_dstSize_tooSmall;
            }
            return (size_t)-ZSTD_error_GENERIC;
        }
    }
}

void vf_case(vf::Ctx& c) {
    vf::Tape& t = c.t;
    struct Ctxs { ZSTD_CCtx* c = ZSTD_createCCtx(); ZSTD_DCtx* d = ZSTD_createDCtx(); ~Ctxs() { ZSTD_freeCCtx(c); ZSTD_freeDCtx(d); } } k;
    ZSTD_CCtx* cctx = k.c; ZSTD_DCtx* dctx = k.d;
    int part = (int)t.weighted({5, 3, 2});
    if (part == 0) {
        // ---- compression capacity sweep ----
        int entry = (int)t.weighted({5, 1, 1, 2});
        gen::ParamSet ps = gen::gen_params(t, g_thorough);
        { std::vector<gen::PV> kk; for (auto& x : ps.v) if (x.p != ZSTD_c_format) kk.push_back(x); ps.v = kk; }
        if (gen::estimate_mem(ps) > (700ull << 20)) c.discard("memcap");
        int lvl = ps.get(ZSTD_c_compressionLevel, 3), strat = ps.get(ZSTD_c_strategy, 0);
        size_t maxsz = (lvl >= 16 || strat >= 7) ? (64u << 10) : (g_thorough ? (2u << 20) : (300u << 10));
        std::vector<uint8_t> x;
        gen::ContentInfo ci;
        bool hunt = t.chance(25);
        if (hunt) { size_t n = gen::gen_size(t, maxsz); x = bound_hunt_content(t, n); ci.size = n; }
        else x = gen::gen_content(t, maxsz, &ci);
        if (entry == 0 || entry == 3) gen::apply_params(cctx, ps, &c);
        if (entry == 3) ZSTD_CCtx_setParameter(cctx, ZSTD_c_stableOutBuffer, 1);
        size_t bound = ZSTD_compressBound(x.size());
        vf::Buf src(x.data(), x.size());
        size_t n;
        {
            vf::Buf d0(bound);
            n = do_compress(entry, cctx, ps, d0.p, bound, src.p, src.n);
            if (ZSTD_isError(n)) {
                if (se::is_clean_refusal(n)) c.discard("clean_refusal");
                c.fail("entry %d: compressBound(%zu)=%zu bytes of destination did not suffice: %s [%s]", entry, x.size(), bound, ZSTD_getErrorName(n), ps.str().c_str());
            }
            c.maxi("worst_expansion_bytes", n > x.size() ? n - x.size() : 0);
            if (hunt) c.maxi("hunt_worst_expansion_bytes", n > x.size() ? n - x.size() : 0);
        }
        c.note("cap-sweep entry=%d %s %s%s n=%zu bound=%zu", entry, ps.str().c_str(), ci.summary().c_str(), hunt ? " [bound-hunt]" : "", n, bound);
        std::set<size_t> caps;
        bool big = x.size() > (64u << 10);
        if (!big) {
            for (size_t cc = 0; cc <= std::min<size_t>(n + 8, 48); cc++) caps.insert(cc);
            for (size_t cc = n > 8 ? n - 8 : 0; cc <= n + 8; cc++) caps.insert(cc);
            for (size_t cc = 2; cc <= 18; cc++) caps.insert(cc);
        } else {
            for (size_t cc = n > 2 ? n - 2 : 0; cc <= n + 1; cc++) caps.insert(cc);
            caps.insert(0); caps.insert(17);
        }
        caps.insert(bound > 0 ? bound - 1 : 0); caps.insert(bound); caps.insert(bound + 1);
        unsigned nrand = big ? 6 : 24;
        for (unsigned i = 0; i < nrand; i++) caps.insert((size_t)t.range(0, bound + 2));
        unsigned n_small = 0, n_ok = 0;
        for (size_t cap : caps) {
            vf::Buf dst(cap);
            memset(dst.p, 0xEE, cap);
            ZSTD_CCtx_reset(cctx, ZSTD_reset_session_only);
            size_t r = do_compress(entry, cctx, ps, dst.p, cap, src.p, src.n);
            c.label("capacity_evaluations");
            if (ZSTD_isError(r)) {
                if (cap >= bound) {
                    if (se::is_clean_refusal(r)) continue;
                    c.fail("capacity %zu >= compressBound(%zu)=%zu but compression failed: %s [entry %d %s]", cap, x.size(), bound, ZSTD_getErrorName(r), entry, ps.str().c_str());
                }
                if (ZSTD_getErrorCode(r) == ZSTD_error_dstSize_tooSmall) n_small++;
                continue;
            }
            VF_CHECK(c, r <= cap, "compressor returned %zu for capacity %zu", r, cap);
            n_ok++;
            // success at any capacity must still round-trip (error, never corruption)
            vf::Buf cs(dst.p, r);
            vf::Buf out(x.size());
            size_t d = ZSTD_decompressDCtx(dctx, out.p, out.n, cs.p, cs.n);
            VF_CHECK(c, !ZSTD_isError(d) && d == x.size() && (x.empty() || !memcmp(out.p, x.data(), x.size())),
                     "capacity %zu: compressor reported success (%zu bytes) but the frame does not decode to the input (%s)", cap, r, ZSTD_isError(d) ? ZSTD_getErrorName(d) : "content differs");
        }
        c.label("part:compress_sweep");
        c.nontrivial = n_small > 0 && n_ok > 0;
        return;
    }
    if (part == 1) {
        // ---- decompression capacity sweep over a valid frame ----
        gen::ParamSet ps = gen::gen_params(t, g_thorough, 4);
        { std::vector<gen::PV> kk; for (auto& x : ps.v) if (x.p != ZSTD_c_format) kk.push_back(x); ps.v = kk; }
        if (gen::estimate_mem(ps) > (700ull << 20)) c.discard("memcap");
        gen::ContentInfo ci;
        std::vector<uint8_t> x = gen::gen_content(t, 200u << 10, &ci);
        gen::apply_params(cctx, ps, &c);
        vf::Buf d0(ZSTD_compressBound(x.size()));
        size_t n = ZSTD_compress2(cctx, d0.p, d0.n, x.data(), x.size());
        if (ZSTD_isError(n)) { if (se::is_clean_refusal(n)) c.discard("clean_refusal"); c.fail("compress2: %s", ZSTD_getErrorName(n)); }
        vf::Buf cs(d0.p, n);
        c.note("dec-sweep %s %s", ps.str().c_str(), ci.summary().c_str());
        std::set<size_t> caps;
        for (size_t cc = 0; cc <= std::min<size_t>(x.size() + 8, 24); cc++) caps.insert(cc);
        for (size_t cc = x.size() > 8 ? x.size() - 8 : 0; cc <= x.size() + 8; cc++) caps.insert(cc);
        for (unsigned i = 0; i < 12; i++) caps.insert((size_t)t.range(0, x.size() + 8));
        int how = (int)t.range(0, 2);
        unsigned n_err = 0, n_ok = 0;
        for (size_t cap : caps) {
            vf::Buf out(cap);
            size_t d;
            if (how == 0) d = ZSTD_decompressDCtx(dctx, out.p, cap, cs.p, cs.n);
            else if (how == 1) d = ZSTD_decompress(out.p, cap, cs.p, cs.n);
            else {
                // streaming into exactly cap bytes
                ZSTD_DCtx_reset(dctx, ZSTD_reset_session_only);
                ZSTD_inBuffer in = {cs.p, cs.n, 0};
                ZSTD_outBuffer ob = {out.p, cap, 0};
                size_t r = 1; unsigned g = 0;
                while (r != 0 && !ZSTD_isError(r)) {
                    size_t b = in.pos + ob.pos;
                    r = ZSTD_decompressStream(dctx, &ob, &in);
                    if (!ZSTD_isError(r) && r != 0 && in.pos + ob.pos == b && ++g > 2) { r = (size_t)-ZSTD_error_dstSize_tooSmall; break; }
                }
                d = ZSTD_isError(r) ? r : ob.pos;
            }
            c.label("capacity_evaluations");
            if (cap < x.size()) { VF_CHECK(c, ZSTD_isError(d), "decoding %zu bytes into capacity %zu reported success (%zu)", x.size(), cap, d); n_err++; }
            else {
                VF_CHECK(c, !ZSTD_isError(d), "decoding into capacity %zu >= %zu failed: %s", cap, x.size(), ZSTD_getErrorName(d));
                VF_CHECK(c, d == x.size() && (x.empty() || !memcmp(out.p, x.data(), x.size())), "capacity %zu: decoded %zu bytes / content differs", cap, d);
                n_ok++;
            }
        }
        c.label("part:decompress_sweep");
        fw::Frame f = fw::walk(cs.p, cs.n);
        c.nontrivial = n_err > 0 && n_ok > 0 && (f.n_comp > 0 || f.blocks.size() > 1);
        return;
    }
    // ---- frame inspectors over generated frame sequences ----
    se::EncOpts eo;
    eo.allow_magicless = false;
    eo.max_content = 300u << 10;
    se::EncResult er = se::gen_stream(c, cctx, eo);
    std::vector<uint8_t> x = er.all();
    vf::Buf cs(er.out.data(), er.out.size());
    bool all_fcs = true;
    unsigned nreal = 0;
    for (auto& fr : er.frames) {
        size_t flen = fr.cEnd - fr.cBegin;
        size_t got = ZSTD_findFrameCompressedSize(cs.p + fr.cBegin, cs.n - fr.cBegin);
        VF_CHECK(c, !ZSTD_isError(got) && got == flen, "findFrameCompressedSize = %zu (%s), the streaming decoder consumes %zu", got, ZSTD_isError(got) ? ZSTD_getErrorName(got) : "", flen);
        // exact-size view too
        vf::Buf one(cs.p + fr.cBegin, flen);
        got = ZSTD_findFrameCompressedSize(one.p, one.n);
        VF_CHECK(c, got == flen, "findFrameCompressedSize on the exact frame = %zu, expected %zu", got, flen);
        unsigned long long fcs = ZSTD_getFrameContentSize(one.p, one.n);
        VF_CHECK(c, fcs != ZSTD_CONTENTSIZE_ERROR, "getFrameContentSize reports an error on a valid frame");
        if (fr.skippable) { VF_CHECK(c, fcs == 0, "skippable frame content size %llu", fcs); continue; }
        nreal++;
        if (fcs == ZSTD_CONTENTSIZE_UNKNOWN) all_fcs = false;
        else VF_CHECK(c, fcs == fr.dEnd - fr.dBegin, "content size field %llu != actual %zu", fcs, fr.dEnd - fr.dBegin);
        unsigned long long bnd = ZSTD_decompressBound(one.p, one.n);
        VF_CHECK(c, bnd != ZSTD_CONTENTSIZE_ERROR && bnd >= fr.dEnd - fr.dBegin, "decompressBound %llu < actual %zu", bnd, fr.dEnd - fr.dBegin);
        if (fcs != ZSTD_CONTENTSIZE_UNKNOWN) VF_CHECK(c, bnd == fcs, "frame carries its size %llu but decompressBound says %llu", fcs, bnd);
        // in-place decoding with the advertised margin
        size_t margin = ZSTD_decompressionMargin(one.p, one.n);
        VF_CHECK(c, !ZSTD_isError(margin), "decompressionMargin: %s", ZSTD_getErrorName(margin));
        size_t dlen = fr.dEnd - fr.dBegin;
        vf::Buf ip(dlen + margin);
        uint8_t* cpos = ip.p + ip.n - flen;
        memmove(cpos, one.p, flen);
        size_t d = ZSTD_decompressDCtx(dctx, ip.p, ip.n, cpos, flen);
        VF_CHECK(c, !ZSTD_isError(d), "in-place decode with margin %zu failed: %s", margin, ZSTD_getErrorName(d));
        VF_CHECK(c, d == dlen && (dlen == 0 || !memcmp(ip.p, x.data() + fr.dBegin, dlen)), "in-place decode differs");
    }
    unsigned long long tot = ZSTD_decompressBound(cs.p, cs.n);
    VF_CHECK(c, tot != ZSTD_CONTENTSIZE_ERROR && tot >= x.size(), "decompressBound over the sequence %llu < actual %zu", tot, x.size());
    unsigned long long fds = ZSTD_findDecompressedSize(cs.p, cs.n);
    if (all_fcs) {
        VF_CHECK(c, tot == x.size(), "every frame carries its size but decompressBound %llu != %zu", tot, x.size());
        VF_CHECK(c, fds == x.size(), "findDecompressedSize %llu != %zu", fds, x.size());
    } else VF_CHECK(c, fds == ZSTD_CONTENTSIZE_UNKNOWN, "a frame lacks its size but findDecompressedSize says %llu", fds);
    if (!cs.n) { c.label("empty_stream"); }
    size_t m = ZSTD_decompressionMargin(cs.p, cs.n);
    if (cs.n && !ZSTD_isError(m)) {
        vf::Buf ip(x.size() + m);
        uint8_t* cpos = ip.p + ip.n - cs.n;
        memmove(cpos, cs.p, cs.n);
        size_t d = ZSTD_decompressDCtx(dctx, ip.p, ip.n, cpos, cs.n);
        VF_CHECK(c, !ZSTD_isError(d) && d == x.size() && (x.empty() || !memcmp(ip.p, x.data(), x.size())), "multi-frame in-place decode with margin %zu: %s", m, ZSTD_isError(d) ? ZSTD_getErrorName(d) : "differs");
    } else if (cs.n) c.fail("decompressionMargin over a valid sequence: %s", ZSTD_getErrorName(m));
    c.label("part:inspectors");
    if (!all_fcs) c.label("frame_without_fcs");
    c.nontrivial = nreal >= 1 && (er.frames.size() > 1 || !all_fcs);
}
