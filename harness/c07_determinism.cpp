// C07 - compressed output is a pure function of input, parameters, dictionary and calls.
// A target operation T is executed twice: once on a fresh heap context with roomy buffers, once under one or more
// perturbations that the property says are irrelevant. The outputs must be byte-identical.
#include "stream_engine.hpp"

const char* vf_property_id() { return "C07"; }
static bool g_thorough = false;
static std::vector<uint8_t> g_golden_dict;
static std::vector<uint8_t> slurp(const std::string& p) { std::vector<uint8_t> v; FILE* f = fopen(p.c_str(), "rb"); if (!f) return v; uint8_t b[4096]; size_t r; while ((r = fread(b, 1, sizeof b, f)) > 0) v.insert(v.end(), b, b + r); fclose(f); return v; }
void vf_setup() {
    const char* e = getenv("VERIF_TIER"); g_thorough = e && !strcmp(e, "thorough");
    const char* repo = getenv("VERIF_REPO");
    g_golden_dict = slurp(std::string(repo ? repo : "/repo") + "/tests/golden-dictionaries/http-dict-missing-symbols");
}

// allocator that hands out memory pre-filled with seeded garbage (dependence on uninitialised memory becomes visible)
struct Garbage { uint64_t s; };
static void* g_alloc(void* opaque, size_t size) {
    Garbage* g = (Garbage*)opaque;
    uint8_t* p = (uint8_t*)malloc(size);
    if (!p) return nullptr;
    uint64_t s = g->s;
    for (size_t i = 0; i + 8 <= size; i += 8) { s ^= s << 13; s ^= s >> 7; s ^= s << 17; memcpy(p + i, &s, 8); }
    for (size_t i = size & ~(size_t)7; i < size; i++) p[i] = (uint8_t)(s >> (8 * (i & 7)));
    g->s = s * 0x9E3779B97F4A7C15ull + 1;
    return p;
}
static void g_free(void*, void* p) { free(p); }

struct Step { size_t len; int dir; };   // dir: 0 continue, 1 flush
struct Target {
    gen::ParamSet ps;
    std::vector<uint8_t> x, dict;
    int dictMode = 0;     // 0 none, 1 loadDictionary, 2 refPrefix, 3 CDict
    int api = 0;          // 0 compressStream2 history, 1 compress2, 2 compressCCtx(level), 3 legacy initCStream history
    std::vector<Step> steps;
    bool pledge = false;
};

struct Perturb {
    size_t srcOff = 0, dstOff = 0;
    size_t capMode = 0;       // 0 roomy, 1 small fixed, 2 varying from tape values
    std::vector<size_t> caps;
    int nbWorkers = -1;       // override (only among >=1)
    bool adjacentPrefix = false;   // prefix placed immediately in front of the source (only with ZSTD_c_deterministicRefPrefix=1, which promises independence from that)
};

static bool run_target(vf::Ctx& c, ZSTD_CCtx* cctx, const Target& T, const Perturb& P, std::vector<uint8_t>& out, std::string* err, unsigned* excluded = nullptr) {
    out.clear();
    size_t r = ZSTD_CCtx_reset(cctx, ZSTD_reset_session_and_parameters);
    if (ZSTD_isError(r)) { *err = std::string("reset: ") + ZSTD_getErrorName(r); return false; }
    gen::ParamSet ps = T.ps;
    for (auto& pv : ps.v) {
        int v = pv.v;
        if (pv.p == ZSTD_c_nbWorkers && P.nbWorkers >= 1) v = P.nbWorkers;
        r = ZSTD_CCtx_setParameter(cctx, pv.p, v);
        if (ZSTD_isError(r)) { *err = std::string("set ") + pv.name + ": " + ZSTD_getErrorName(r); return false; }
    }
    // source and destination placed at an offset inside larger buffers
    vf::Buf srcbuf(T.x.size() + P.srcOff + 1);
    uint8_t* src = srcbuf.p + P.srcOff;
    if (!T.x.empty()) memcpy(src, T.x.data(), T.x.size());
    vf::Buf dictbuf(T.dict.data(), T.dict.size());   // its own block: not adjacent to the source ...
    // ... except when asked to be: one block [prefix][source]
    vf::Buf both((P.adjacentPrefix && T.dictMode == 2) ? T.dict.size() + T.x.size() + 1 : 0);
    if (P.adjacentPrefix && T.dictMode == 2) {
        if (!T.dict.empty()) memcpy(both.p, T.dict.data(), T.dict.size());
        if (!T.x.empty()) memcpy(both.p + T.dict.size(), T.x.data(), T.x.size());
        src = both.p + T.dict.size();
    }
    ZSTD_CDict* cd = nullptr;
    struct CG { ZSTD_CDict*& d; ~CG() { if (d) ZSTD_freeCDict(d); } } cg{cd};
    if (T.dictMode == 1) r = ZSTD_CCtx_loadDictionary(cctx, dictbuf.p, dictbuf.n);
    else if (T.dictMode == 2) r = (P.adjacentPrefix ? ZSTD_CCtx_refPrefix(cctx, both.p, T.dict.size()) : ZSTD_CCtx_refPrefix(cctx, dictbuf.p, dictbuf.n));
    else if (T.dictMode == 3) { cd = ZSTD_createCDict(dictbuf.p, dictbuf.n, T.ps.get(ZSTD_c_compressionLevel, 3)); if (!cd) { *err = "createCDict"; return false; } r = ZSTD_CCtx_refCDict(cctx, cd); }
    if (ZSTD_isError(r)) { *err = std::string("dict: ") + ZSTD_getErrorName(r); return false; }
    size_t bound = ZSTD_compressBound(T.x.size()) + 1024 + 32 * T.steps.size();
    if (T.api == 1 || T.api == 2) {
        vf::Buf d(bound + P.dstOff);
        size_t n = (T.api == 1) ? ZSTD_compress2(cctx, d.p + P.dstOff, bound, src, T.x.size())
                                : ZSTD_compressCCtx(cctx, d.p + P.dstOff, bound, src, T.x.size(), T.ps.get(ZSTD_c_compressionLevel, 3));
        if (ZSTD_isError(n)) { *err = std::string("oneshot: ") + ZSTD_getErrorName(n); return false; }
        out.assign(d.p + P.dstOff, d.p + P.dstOff + n);
        return true;
    }
    if (T.api == 3) { r = ZSTD_initCStream(cctx, T.ps.get(ZSTD_c_compressionLevel, 3)); if (ZSTD_isError(r)) { *err = "initCStream"; return false; } }
    else if (T.pledge) { r = ZSTD_CCtx_setPledgedSrcSize(cctx, T.x.size()); if (ZSTD_isError(r)) { *err = "pledge"; return false; } }
    size_t pos = 0, capi = 0;
    auto next_cap = [&]() -> size_t {
        if (P.capMode == 0) return bound;
        if (P.capMode == 1) return P.caps.empty() ? 1 : std::max<size_t>(1, P.caps[0]);
        size_t v = P.caps.empty() ? 7 : P.caps[capi++ % P.caps.size()];
        return std::max<size_t>(1, v);
    };
    unsigned guard = 0;
    for (size_t si = 0; si <= T.steps.size(); si++) {
        bool last = si == T.steps.size();
        size_t len = last ? T.x.size() - pos : std::min(T.steps[si].len, T.x.size() - pos);
        ZSTD_EndDirective dir = last ? ZSTD_e_end : (T.steps[si].dir ? ZSTD_e_flush : ZSTD_e_continue);
        ZSTD_inBuffer in = {src + pos, len, 0};
        // the same logical call: repeated until the slice is consumed (continue) / the directive reports completion
        bool first_call_of_step = true;
        for (;;) {
            size_t cap = next_cap();
            // KNOWN FINDING KF-C07-endshortcut (known_findings.jsonl): the first ZSTD_e_end call that still carries input
            // takes a direct-to-output shortcut iff dstCapacity >= compressBound(remaining) and the input ring is at
            // position 0, and the two paths parse differently at high levels with tiny windows. That exact shape is
            // excluded by construction: this one call gets the reference capacity; every later call varies again.
            if (last && first_call_of_step && len > 0 && P.capMode != 0 && T.api == 0) { cap = bound; if (excluded) (*excluded)++; }
            first_call_of_step = false;
            vf::Buf ob(cap + P.dstOff);
            ZSTD_outBuffer o = {ob.p + P.dstOff, cap, 0};
            size_t rr;
            if (T.api == 3) {
                // legacy protocol: feed with compressStream until the slice is consumed, then ONLY flushStream/endStream until 0
                if (in.pos < in.size) { rr = ZSTD_compressStream(cctx, &o, &in); if (!ZSTD_isError(rr)) rr = 1; }
                else if (dir == ZSTD_e_continue) rr = 0;
                else rr = (dir == ZSTD_e_flush) ? ZSTD_flushStream(cctx, &o) : ZSTD_endStream(cctx, &o);
            } else rr = ZSTD_compressStream2(cctx, &o, &in, dir);
            if (ZSTD_isError(rr)) { *err = std::string("stream: ") + ZSTD_getErrorName(rr); return false; }
            out.insert(out.end(), ob.p + P.dstOff, ob.p + P.dstOff + o.pos);
            if (++guard > 4000000) { *err = "no termination"; return false; }
            if (dir == ZSTD_e_continue) { if (in.pos == in.size) break; }
            else if (rr == 0 && in.pos == in.size) break;
        }
        pos += len;
    }
    (void)c;
    return true;
}

// things done to a context before T; each is followed by a session reset
static void history(vf::Ctx& c, ZSTD_CCtx* cctx, unsigned* nframes, const gen::ParamSet* Tps) {
    vf::Tape& t = c.t;
    unsigned n = (unsigned)t.range(1, 5);
    for (unsigned i = 0; i < n; i++) {
        ZSTD_CCtx_reset(cctx, ZSTD_reset_session_and_parameters);
        // half of the history runs with T's own parameter vector (same tables, same MT/LDM machinery: the likeliest
        // place for state to survive), possibly with one more override; the rest with unrelated parameters
        gen::ParamSet ps;
        if (Tps && t.chance(55)) { ps = *Tps; if (t.flip()) { gen::ParamSet extra = gen::gen_params(t, false, 1); for (auto& e : extra.v) ps.v.push_back(e); } }
        else ps = gen::gen_params(t, false, 5);
        if (gen::estimate_mem(ps) > (400ull << 20)) continue;
        gen::apply_params(cctx, ps);
        int lvl = ps.get(ZSTD_c_compressionLevel, 3), strat = ps.get(ZSTD_c_strategy, 0);
        std::vector<uint8_t> y = gen::gen_content(t, (lvl >= 16 || strat >= 7) ? (64u << 10) : (600u << 10));
        std::vector<uint8_t> o(ZSTD_compressBound(y.size()) + 64);
        bool sameFamily = Tps && ps.v.size() >= Tps->v.size() && Tps->has(ZSTD_c_nbWorkers);
        // a history entry that shares a multithreaded target's parameters is streamed (that is what runs the MT machinery for any size)
        switch (sameFamily && t.chance(70) ? 5 : t.weighted({3, 2, 1, 1, 1, 3})) {
            case 5: {  // a complete streamed frame of unknown size (this is what takes the MT path for any size)
                ZSTD_inBuffer in = {y.data(), y.size(), 0}; ZSTD_outBuffer ob = {o.data(), o.size(), 0};
                size_t r = ZSTD_compressStream2(cctx, &ob, &in, ZSTD_e_continue);
                for (unsigned g = 0; g < 100000 && !ZSTD_isError(r); g++) { r = ZSTD_compressStream2(cctx, &ob, &in, ZSTD_e_end); if (r == 0) break; }
                c.note("H:streamed(%zu) ", y.size()); break;
            }
            case 0: { size_t r = ZSTD_compress2(cctx, o.data(), o.size(), y.data(), y.size()); (void)r; c.note("H:frame(%zu) ", y.size()); break; }
            case 1: {  // aborted mid-stream
                ZSTD_inBuffer in = {y.data(), y.size() / 2 + 1 > y.size() ? y.size() : y.size() / 2 + 1, 0}; ZSTD_outBuffer ob = {o.data(), (size_t)t.range(0, 300), 0};
                ZSTD_compressStream2(cctx, &ob, &in, t.flip() ? ZSTD_e_flush : ZSTD_e_continue);
                c.note("H:aborted(%zu) ", in.pos); break;
            }
            case 2: { size_t r = ZSTD_compress2(cctx, o.data(), std::min<size_t>(o.size(), (size_t)t.range(0, 20)), y.data(), y.size()); (void)r; c.note("H:dstTooSmall "); break; }
            case 3: {  // pledged-size mismatch
                ZSTD_CCtx_setPledgedSrcSize(cctx, y.size() + 7);
                ZSTD_inBuffer in = {y.data(), y.size(), 0}; ZSTD_outBuffer ob = {o.data(), o.size(), 0};
                ZSTD_compressStream2(cctx, &ob, &in, ZSTD_e_continue);
                ZSTD_inBuffer in2 = {nullptr, 0, 0};
                ZSTD_compressStream2(cctx, &ob, &in2, ZSTD_e_end);
                c.note("H:pledgeMismatch "); break;
            }
            default: { size_t r = ZSTD_compressCCtx(cctx, o.data(), o.size(), y.data(), y.size(), lvl); (void)r; c.note("H:simple(%zu) ", y.size()); break; }
        }
        ZSTD_CCtx_reset(cctx, ZSTD_reset_session_only);
        (*nframes)++;
    }
}

void vf_case(vf::Ctx& c) {
    vf::Tape& t = c.t;
    Target T;
    T.ps = gen::gen_params(t, g_thorough);
    { std::vector<gen::PV> kk; for (auto& x : T.ps.v) if (x.p != ZSTD_c_format || true) kk.push_back(x); T.ps.v = kk; }
    if (gen::estimate_mem(T.ps) > (500ull << 20)) c.discard("memcap");
    bool mt = t.chance(25);
    if (t.chance(mt ? 40 : 10) && !T.ps.has(ZSTD_c_enableLongDistanceMatching)) {
        T.ps.v.push_back({ZSTD_c_enableLongDistanceMatching, 1, "ldm"});
        if (t.flip()) T.ps.v.push_back({ZSTD_c_ldmHashLog, (int)t.range(6, 14), "ldmHashLog"});
        if (t.flip()) T.ps.v.push_back({ZSTD_c_ldmBucketSizeLog, (int)t.range(1, 8), "ldmBucketSizeLog"});
        if (t.flip()) T.ps.v.push_back({ZSTD_c_ldmMinMatch, (int)t.range(4, 128), "ldmMinMatch"});
    }
    if (mt) { T.ps.v.push_back({ZSTD_c_nbWorkers, (int)t.range(1, 4), "nbWorkers"}); if (t.flip()) T.ps.v.push_back({ZSTD_c_jobSize, 1 << 20, "jobSize"}); if (t.flip()) T.ps.v.push_back({ZSTD_c_overlapLog, (int)t.range(1, 9), "overlapLog"}); }
    int lvl = T.ps.get(ZSTD_c_compressionLevel, 3), strat = T.ps.get(ZSTD_c_strategy, 0);
    size_t maxsz = (lvl >= 16 || strat >= 7) ? (200u << 10) : (mt ? (4u << 20) : (g_thorough ? (2u << 20) : (700u << 10)));
    gen::ContentInfo ci;
    T.x = gen::gen_content(t, maxsz, &ci);
    T.api = (int)t.weighted({6, 2, 1, 1});
    if (mt && T.api >= 2) T.api = 0;
    T.dictMode = (int)t.weighted({6, 2, 1, 1});
    if (T.api >= 2) T.dictMode = 0;
    if (T.dictMode) { if (t.flip()) T.dict = g_golden_dict; else { gen::ContentInfo di; T.dict = gen::gen_content_sized(t, (size_t)t.range(8, 60000), &di); } if (T.dictMode == 2 && T.dict.size() > 8 && T.dict[0] == 0x37) T.dict[0] = 0x38; }
    bool detPrefix = T.dictMode == 2 && t.chance(60);
    if (detPrefix) T.ps.v.push_back({ZSTD_c_deterministicRefPrefix, 1, "deterministicRefPrefix"});
    unsigned ns = (T.api == 0 || T.api == 3) ? (unsigned)t.range(0, 6) : 0;
    for (unsigned i = 0; i < ns; i++) T.steps.push_back({se::gen_chunk(t), (int)t.chance(35)});
    T.pledge = T.api == 0 && t.chance(25);
    c.note("T{api=%d %s %s dict=%d/%zu steps=%zu pledge=%d} ", T.api, T.ps.str().c_str(), ci.summary().c_str(), T.dictMode, T.dict.size(), T.steps.size(), (int)T.pledge);

    // reference execution: fresh heap context, roomy buffers, no offsets
    std::vector<uint8_t> ref, got;
    std::string err;
    {
        ZSTD_CCtx* a = ZSTD_createCCtx();
        struct G { ZSTD_CCtx* c; ~G() { ZSTD_freeCCtx(c); } } g{a};
        Perturb P0;
        if (!run_target(c, a, T, P0, ref, &err)) { c.label("target_refused"); c.discard("target_refused"); }
    }
    // perturbed execution
    Perturb P;
    unsigned nh = 0;
    int kind = (int)t.weighted({4, 2, 3, 2});   // reused-after-history | static | garbage allocator | fresh
    if (kind == 1 && (mt || T.dictMode == 1 || T.dictMode == 3)) kind = 0;
    Garbage gb{t.raw() + 1u};
    ZSTD_customMem cm = {g_alloc, g_free, &gb};
    ZSTD_CCtx* b = nullptr;
    vf::Buf* ws = nullptr;
    if (kind == 1) {
        ZSTD_CCtx_params* cp = ZSTD_createCCtxParams();
        for (auto& pv : T.ps.v) ZSTD_CCtxParams_setParameter(cp, pv.p, pv.v);
        size_t est = ZSTD_estimateCStreamSize_usingCCtxParams(cp);
        ZSTD_freeCCtxParams(cp);
        if (ZSTD_isError(est) || est > (600ull << 20)) kind = 0;
        else {
            ws = new vf::Buf(est * 2 + (1u << 20) + 64);
            // caller memory pre-filled with garbage too
            for (size_t i = 0; i < ws->n; i++) ws->p[i] = (uint8_t)(i * 131 + 7);
            uint8_t* al = (uint8_t*)(((uintptr_t)ws->p + 63) & ~(uintptr_t)63);
            b = ZSTD_initStaticCCtx(al, ws->n - 64);
            if (!b) { delete ws; ws = nullptr; kind = 0; }
        }
    }
    if (getenv("VF_NO_GARBAGE") && kind == 2) kind = 3;   // triage switches (never set by the checks)
    if (!b) b = (kind == 2) ? ZSTD_createCCtx_advanced(cm) : ZSTD_createCCtx();
    struct G2 { ZSTD_CCtx* c; bool st; vf::Buf* ws; ~G2() { if (!st) ZSTD_freeCCtx(c); if (ws) delete ws; } } g2{b, kind == 1 && ws, ws};
    if (kind == 0 || (kind != 3 && t.chance(50))) history(c, b, &nh, &T.ps);
    P.srcOff = t.chance(50) ? (size_t)t.range(0, 63) : 0;
    P.dstOff = t.chance(50) ? (size_t)t.range(0, 63) : 0;
    P.capMode = (T.api == 0 || T.api == 3) ? (size_t)t.weighted({2, 2, 3}) : 0;
    if (P.capMode) { unsigned k = (unsigned)t.range(1, 6); for (unsigned i = 0; i < k; i++) P.caps.push_back(se::gen_chunk(t, 131072, false)); }
    if (getenv("VF_NO_CAPS")) P.capMode = 0;
    if (mt) P.nbWorkers = (int)t.pick<int>({1, 2, 3, 4, 8});
    if (detPrefix && t.chance(70)) { P.adjacentPrefix = true; c.label("prefix_adjacent_to_source"); }
    c.note("P{ctx=%s history=%u srcOff=%zu dstOff=%zu caps=%zu/%zu workers=%d}", kind == 1 ? "static" : kind == 2 ? "garbage-alloc" : kind == 3 ? "fresh" : "reused", nh, P.srcOff, P.dstOff, P.capMode, P.caps.size(), P.nbWorkers);
    unsigned excl = 0;
    if (!run_target(c, b, T, P, got, &err, &excl)) {
        if (kind == 1 && err.find("memory") != std::string::npos) c.discard("static_too_small");   // C14's business
        if (kind == 1 && err.find("llocation") != std::string::npos) c.discard("static_too_small");
        c.fail("the perturbed execution failed (%s) although the reference execution of the same target succeeded", err.c_str());
    }
    if (got != ref) {
        size_t i = 0; while (i < got.size() && i < ref.size() && got[i] == ref[i]) i++;
        c.fail("outputs differ: reference %zu bytes, perturbed %zu bytes, first difference at byte %zu", ref.size(), got.size(), i);
    }
    c.label(std::string("ctx:") + (kind == 1 ? "static" : kind == 2 ? "garbage_alloc" : kind == 3 ? "fresh" : "reused"));
    if (excl) c.label("excluded:KF-C07-endshortcut");
    if (nh) c.label("with_history");
    if (mt) c.label("mt");
    if (P.capMode) c.label("varied_output_capacities");
    if (T.dictMode) c.label("with_dict");
    fw::Frame f = fw::walk(ref.data(), ref.size(), T.ps.get(ZSTD_c_format, 0) == 1);
    bool structural = f.ok && (f.n_comp > 0 || f.blocks.size() > 1);
    c.nontrivial = structural && (nh > 0 || kind == 2 || kind == 1 || (mt && T.x.size() > (2u << 20)) || P.capMode);
}
