// C08 - dictionary compression round-trips for every dictionary, mode and input.
#include "stream_engine.hpp"
#include "conformance.hpp"
#define ZDICT_STATIC_LINKING_ONLY
#include "zdict.h"

const char* vf_property_id() { return "C08"; }
static bool g_thorough = false;
static std::vector<uint8_t> g_golden;
static std::vector<uint8_t> slurp(const std::string& p) { std::vector<uint8_t> v; FILE* f = fopen(p.c_str(), "rb"); if (!f) return v; uint8_t b[4096]; size_t r; while ((r = fread(b, 1, sizeof b, f)) > 0) v.insert(v.end(), b, b + r); fclose(f); return v; }
void vf_setup() {
    const char* e = getenv("VERIF_TIER"); g_thorough = e && !strcmp(e, "thorough");
    const char* repo = getenv("VERIF_REPO"); g_golden = slurp(std::string(repo ? repo : "/repo") + "/tests/golden-dictionaries/http-dict-missing-symbols");
}

// ---- dictionaries ----
enum DKind { DK_RAW = 0, DK_GOLDEN, DK_FINALIZED, DK_TRAINED, DK_MUTATED, DK_NKINDS };
static const char* dk_name[] = {"raw", "golden", "finalized", "trained", "mutated-header"};

static std::vector<uint8_t> make_samples(vf::Tape& t, std::vector<size_t>& sizes, unsigned n, size_t maxEach, int alphabetMode) {
    std::vector<uint8_t> buf;
    gen::Xs x(t.raw() + 31);
    static const char* fields[] = {"GET /index.html HTTP/1.1\r\n", "Host: example.com\r\n", "User-Agent: zstd-verif\r\n", "{\"id\": ", ", \"name\": \"", "\"}\n", "Content-Length: ", "Accept: */*\r\n"};
    for (unsigned i = 0; i < n; i++) {
        size_t len = 1 + x.next() % maxEach;
        size_t start = buf.size();
        while (buf.size() - start < len) {
            if (alphabetMode == 0) { const char* f = fields[x.next() % 8]; for (; *f && buf.size() - start < len; f++) buf.push_back((uint8_t)*f); buf.push_back((uint8_t)('0' + x.next() % 10)); }
            else if (alphabetMode == 1) buf.push_back((uint8_t)('a' + x.next() % 3));       // tiny alphabet: most symbols missing from the tables
            else buf.push_back((uint8_t)(x.next() % 251));
        }
        buf.resize(start + len);
        sizes.push_back(len);
    }
    return buf;
}

static std::vector<uint8_t> gen_dict(vf::Ctx& c, int* kind_out, std::vector<uint8_t>* content_out) {
    vf::Tape& t = c.t;
    int kind = (int)t.weighted({4, 3, 4, 2, 3});
    std::vector<uint8_t> d;
    if (kind == DK_RAW) {
        size_t n;
        switch (t.weighted({2, 3, 2})) { case 0: n = (size_t)t.range(0, 8); break; case 1: n = (size_t)t.range(9, 4000); break; default: n = (size_t)t.range(4001, 200000); break; }
        d = gen::gen_content_sized(t, n);
        if (d.size() >= 4 && d[0] == 0x37 && d[1] == 0xA4 && d[2] == 0x30 && d[3] == 0xEC) d[0] = 0x38;
        *content_out = d;
    } else if (kind == DK_GOLDEN) {
        d = g_golden;
    } else if (kind == DK_FINALIZED || kind == DK_TRAINED) {
        std::vector<size_t> sizes;
        int am = (int)t.weighted({3, 2, 1});
        unsigned ns = (unsigned)t.range(kind == DK_TRAINED ? 20 : 1, 200);
        std::vector<uint8_t> samples = make_samples(t, sizes, ns, (size_t)t.range(20, 2000), am);
        ZDICT_params_t zp; memset(&zp, 0, sizeof zp);
        zp.compressionLevel = (int)t.irange(0, 9);
        zp.dictID = t.flip() ? (unsigned)t.range(1, 0x7FFFFFFF) : 0;
        d.resize((size_t)t.range(300, 40000));
        size_t r;
        if (kind == DK_FINALIZED) {
            std::vector<uint8_t> content = gen::gen_content_sized(t, (size_t)t.range(0, 20000));
            static const uint8_t nothing[1] = {0};   // (a NULL pointer for empty content is the caller's problem, not the property's)
            r = ZDICT_finalizeDictionary(d.data(), d.size(), content.empty() ? nothing : content.data(), content.size(), samples.data(), sizes.data(), (unsigned)sizes.size(), zp);
        } else {
            ZDICT_fastCover_params_t fp; memset(&fp, 0, sizeof fp);
            fp.d = (unsigned)t.pick<unsigned>({6, 8}); fp.k = (unsigned)t.range(fp.d, 200); fp.f = (unsigned)t.range(8, 18); fp.accel = 1; fp.zParams = zp;
            r = ZDICT_trainFromBuffer_fastCover(d.data(), d.size(), samples.data(), sizes.data(), (unsigned)sizes.size(), fp);
        }
        if (ZDICT_isError(r) || r == 0) { c.label("trainer_gave_no_dictionary"); c.discard("no_dictionary"); }
        d.resize(r);
    } else {
        // structurally valid dictionary with damaged header/entropy bytes: kept only if the library agrees to load it
        d = g_golden;
        unsigned k = (unsigned)t.range(1, 4);
        size_t hdr = std::min<size_t>(d.size(), 300);
        for (unsigned i = 0; i < k; i++) { size_t at = (size_t)t.range(4, hdr - 1); if (t.flip()) d[at] ^= (uint8_t)(1u << t.range(0, 7)); else d[at] = (uint8_t)t.range(0, 255); }
    }
    if (kind != DK_RAW && t.chance(30)) {
        // the three start-of-frame repeat offsets stored in the header (the 12 bytes before the content): the trainers always
        // write {1,4,8}; the format allows any non-zero value up to the content size
        size_t hs0 = ZDICT_getDictHeaderSize(d.data(), d.size());
        if (!ZDICT_isError(hs0) && hs0 >= 20 && hs0 < d.size()) {
            size_t content = d.size() - hs0;
            for (unsigned i = 0; i < 3; i++) { uint32_t v = (uint32_t)t.range(1, std::min<size_t>(content, t.flip() ? 16 : 70000)); for (unsigned b = 0; b < 4; b++) d[hs0 - 12 + 4 * i + b] = (uint8_t)(v >> (8 * b)); }
            c.label("dictionary_with_odd_repeat_offsets");
        }
    }
    if (kind != DK_RAW) {
        // content = what follows the header (only used to correlate the input with it)
        size_t hs = ZDICT_getDictHeaderSize(d.data(), d.size());
        if (!ZDICT_isError(hs) && hs < d.size()) content_out->assign(d.begin() + (long)hs, d.end());
    }
    *kind_out = kind;
    return d;
}

static void splice(vf::Tape& t, std::vector<uint8_t>& x, const std::vector<uint8_t>& dc) {
    if (dc.size() < 8 || x.size() < 16) return;
    unsigned k = (unsigned)t.range(1, 8);
    for (unsigned i = 0; i < k; i++) {
        size_t len = std::min<size_t>((size_t)t.range(4, 900), dc.size());
        size_t from = t.chance(30) ? dc.size() - len : (size_t)t.range(0, dc.size() - len);   // the END of the dictionary is the closest history
        size_t at = t.chance(40) ? 0 : (size_t)t.range(0, x.size() - 1);
        len = std::min(len, x.size() - at);
        memcpy(&x[at], &dc[from], len);
    }
    if (t.chance(25)) gen::continue_dict_tail(t, dc, x);
}

void vf_case(vf::Ctx& c) {
    vf::Tape& t = c.t;
    int kind; std::vector<uint8_t> dcontent;
    std::vector<uint8_t> d = gen_dict(c, &kind, &dcontent);
    vf::Buf dict(d.data(), d.size());   // exact-size: any over-read of the dictionary is an ASan report
    gen::ParamSet ps = gen::gen_params(t, g_thorough, 5);
    { std::vector<gen::PV> kk; for (auto& x : ps.v) if (x.p != ZSTD_c_format) kk.push_back(x); ps.v = kk; }
    if (gen::estimate_mem(ps) > (500ull << 20)) c.discard("memcap");
    int lvl = ps.get(ZSTD_c_compressionLevel, 3), strat = ps.get(ZSTD_c_strategy, 0);
    int mc = (int)t.range(0, 8);   // supply mode, compression side
    static const char* mc_name[] = {"compress_usingDict", "CDict_byCopy", "CDict_byRef", "loadDictionary", "loadDictionary_byReference", "loadDictionary_advanced", "refCDict(advanced)", "refPrefix", "compressBegin_usingDict/CDict"};
    int attach = (int)t.range(0, 3);
    int dds = t.chance(25);
    unsigned nframes = (unsigned)t.range(1, 3);
    // DDicts referenced through the multi-DDict table must outlive the DCtx (zstd.h: the user manages them): freed after it
    struct Yard { std::vector<ZSTD_DDict*> v; ~Yard() { for (auto o : v) ZSTD_freeDDict(o); } } yard;
    struct Cx { ZSTD_CCtx* c = ZSTD_createCCtx(); ZSTD_DCtx* d = ZSTD_createDCtx(); ~Cx() { ZSTD_freeCCtx(c); ZSTD_freeDCtx(d); } } k;
    ZSTD_CDict* cd = nullptr; ZSTD_DDict* dd = nullptr;
    struct G { ZSTD_CDict*& c; ZSTD_DDict*& d; ~G() { ZSTD_freeCDict(c); ZSTD_freeDDict(d); } } g{cd, dd};
    bool rawMode = (mc == 7);
    bool formatted = d.size() >= 8 && d[0] == 0x37 && d[1] == 0xA4 && d[2] == 0x30 && d[3] == 0xEC;
    c.note("dict=%s/%zuB %s mode=%s attach=%d dds=%d frames=%u; ", dk_name[kind], d.size(), ps.str().c_str(), mc_name[mc], attach, dds, nframes);
    c.label(std::string("dict:") + dk_name[kind]);
    c.label(std::string("mode:") + mc_name[mc]);

    unsigned expectID = (formatted && !rawMode) ? ZSTD_getDictID_fromDict(dict.p, dict.n) : 0;
    bool loaded_structured = false;
    for (unsigned fi = 0; fi < nframes; fi++) {
        size_t maxsz = (lvl >= 16 || strat >= 7) ? (100u << 10) : (lvl >= 8 ? (300u << 10) : (900u << 10));
        gen::ContentInfo ci;
        std::vector<uint8_t> x = gen::gen_content(t, maxsz, &ci);
        splice(t, x, dcontent);
        vf::Buf dst(ZSTD_compressBound(x.size()) + 64);
        size_t n = 0, r = 0;
        ZSTD_CCtx_reset(k.c, ZSTD_reset_session_and_parameters);
        if (mc != 0 && mc != 8) {
            gen::ParamSet p2 = ps; gen::apply_params(k.c, p2, &c);
            ZSTD_CCtx_setParameter(k.c, ZSTD_c_forceAttachDict, attach);
            if (dds) ZSTD_CCtx_setParameter(k.c, ZSTD_c_enableDedicatedDictSearch, 1);
        }
        ZSTD_compressionParameters cp = ZSTD_getCParams(lvl, 0, d.size());
        switch (mc) {
            case 0: n = ZSTD_compress_usingDict(k.c, dst.p, dst.n, x.data(), x.size(), dict.p, dict.n, lvl); break;
            case 1: if (!cd) cd = ZSTD_createCDict(dict.p, dict.n, lvl); if (!cd) c.discard("cdict_refused"); n = ZSTD_compress_usingCDict(k.c, dst.p, dst.n, x.data(), x.size(), cd); break;
            case 2: if (!cd) cd = ZSTD_createCDict_byReference(dict.p, dict.n, lvl); if (!cd) c.discard("cdict_refused"); r = ZSTD_CCtx_refCDict(k.c, cd); if (!ZSTD_isError(r)) n = ZSTD_compress2(k.c, dst.p, dst.n, x.data(), x.size()); break;
            case 3: r = ZSTD_CCtx_loadDictionary(k.c, dict.p, dict.n); if (!ZSTD_isError(r)) n = ZSTD_compress2(k.c, dst.p, dst.n, x.data(), x.size()); break;
            case 4: r = ZSTD_CCtx_loadDictionary_byReference(k.c, dict.p, dict.n); if (!ZSTD_isError(r)) n = ZSTD_compress2(k.c, dst.p, dst.n, x.data(), x.size()); break;
            case 5: r = ZSTD_CCtx_loadDictionary_advanced(k.c, dict.p, dict.n, t.flip() ? ZSTD_dlm_byCopy : ZSTD_dlm_byRef, ZSTD_dct_auto); if (!ZSTD_isError(r)) n = ZSTD_compress2(k.c, dst.p, dst.n, x.data(), x.size()); break;
            case 6: {
                if (!cd) {
                    ZSTD_CCtx_params* cpp = ZSTD_createCCtxParams();
                    ZSTD_CCtxParams_init(cpp, lvl);
                    if (dds) ZSTD_CCtxParams_setParameter(cpp, ZSTD_c_enableDedicatedDictSearch, 1);
                    cd = ZSTD_createCDict_advanced2(dict.p, dict.n, ZSTD_dlm_byCopy, ZSTD_dct_auto, cpp, ZSTD_defaultCMem);
                    ZSTD_freeCCtxParams(cpp);
                }
                if (!cd) c.discard("cdict_refused");
                r = ZSTD_CCtx_refCDict(k.c, cd); if (!ZSTD_isError(r)) n = ZSTD_compress2(k.c, dst.p, dst.n, x.data(), x.size()); break;
            }
            case 7: r = ZSTD_CCtx_refPrefix(k.c, dict.p, dict.n); if (!ZSTD_isError(r)) n = ZSTD_compress2(k.c, dst.p, dst.n, x.data(), x.size()); break;
            default: {
                if (t.flip()) r = ZSTD_compressBegin_usingDict(k.c, dict.p, dict.n, lvl);
                else { if (!cd) cd = ZSTD_createCDict_advanced(dict.p, dict.n, ZSTD_dlm_byCopy, ZSTD_dct_auto, cp, ZSTD_defaultCMem); if (!cd) c.discard("cdict_refused"); r = ZSTD_compressBegin_usingCDict(k.c, cd); }
                if (!ZSTD_isError(r)) n = ZSTD_compressEnd(k.c, dst.p, dst.n, x.data(), std::min<size_t>(x.size(), 131072));
                if (x.size() > 131072) x.resize(131072);
                break;
            }
        }
        if (ZSTD_isError(r)) { c.label("compress_side_refused_dictionary"); c.discard("dict_refused"); }   // the library did not agree to load it
        if (ZSTD_isError(n)) {
            if (se::is_clean_refusal(n) || ZSTD_getErrorCode(n) == ZSTD_error_dictionary_corrupted || ZSTD_getErrorCode(n) == ZSTD_error_dictionary_wrong || ZSTD_getErrorCode(n) == ZSTD_error_dictionaryCreation_failed) { c.label("compress_side_refused_dictionary"); c.discard("dict_refused"); }
            c.fail("compression with an accepted dictionary failed: %s", ZSTD_getErrorName(n));
        }
        vf::Buf frame(dst.p, n);
        fw::Frame fr = fw::walk(frame.p, frame.n);
        VF_CHECK(c, fr.ok, "frame does not parse");
        // dictionary ID recorded unless told not to
        bool idflag = (mc == 0 || mc == 1 || mc == 8) ? true : ps.get(ZSTD_c_dictIDFlag, 1) != 0;
        if (idflag && expectID) VF_CHECK(c, fr.dict_id == expectID, "frame records dictionary ID %u, ZSTD_getDictID_fromDict says %u", fr.dict_id, expectID);
        if (!expectID || !idflag) VF_CHECK(c, fr.dict_id == 0, "frame records dictionary ID %u although %s", fr.dict_id, expectID ? "dictIDFlag=0" : "the dictionary has no ID (raw content / prefix)");
        if (cd && formatted) VF_CHECK(c, ZSTD_getDictID_fromCDict(cd) == expectID, "getDictID_fromCDict %u != getDictID_fromDict %u", ZSTD_getDictID_fromCDict(cd), expectID);
        VF_CHECK(c, ZSTD_getDictID_fromFrame(frame.p, frame.n) == fr.dict_id, "getDictID_fromFrame disagrees with the header");

        // ---- decode with the same dictionary, every supply mode on that side ----
        std::vector<uint8_t> back(x.size() + 1);
        int md = rawMode ? 4 : (int)t.range(0, 3);   // a prefix is decoded as a prefix, a dictionary as a dictionary
        static const char* md_name[] = {"decompress_usingDict", "DDict_byCopy", "DDict_byRef+refDDict", "DCtx_loadDictionary", "refPrefix", };
        ZSTD_DCtx_reset(k.d, ZSTD_reset_session_and_parameters);
        size_t dn = 0;
        if (md >= 1 && md <= 2 && !dd) {
            dd = (md == 1) ? ZSTD_createDDict(dict.p, dict.n) : ZSTD_createDDict_byReference(dict.p, dict.n);
            VF_CHECK(c, dd != nullptr, "the compression side accepted this dictionary (%s, %zu bytes) but ZSTD_createDDict refuses it", dk_name[kind], d.size());
            if (formatted) VF_CHECK(c, ZSTD_getDictID_fromDDict(dd) == expectID, "getDictID_fromDDict %u != getDictID_fromDict %u", ZSTD_getDictID_fromDDict(dd), expectID);
        }
        bool multi = (md == 2) && t.chance(40);
        std::vector<ZSTD_DDict*> others;
        switch (md) {
            case 0: dn = ZSTD_decompress_usingDict(k.d, back.data(), back.size(), frame.p, frame.n, dict.p, dict.n); break;
            case 1: dn = ZSTD_decompress_usingDDict(k.d, back.data(), back.size(), frame.p, frame.n, dd); break;
            case 2: {
                if (multi) {
                    ZSTD_DCtx_setParameter(k.d, ZSTD_d_refMultipleDDicts, ZSTD_rmd_refMultipleDDicts);
                    unsigned no = (unsigned)t.range(1, 48);
                    for (unsigned i = 0; i < no; i++) { std::vector<uint8_t> dv = g_golden; uint32_t id = 7 + i * 104729u + (uint32_t)t.raw(); if (id == expectID) id++; memcpy(&dv[4], &id, 4); ZSTD_DDict* o = ZSTD_createDDict(dv.data(), dv.size()); if (o) { others.push_back(o); ZSTD_DCtx_refDDict(k.d, o); } }
                }
                size_t rr = ZSTD_DCtx_refDDict(k.d, dd);
                VF_CHECK(c, !ZSTD_isError(rr), "refDDict: %s", ZSTD_getErrorName(rr));
                if (multi && !expectID) { /* frames without an ID use the last referenced DDict only in single mode */ }
                dn = ZSTD_decompressDCtx(k.d, back.data(), back.size(), frame.p, frame.n);
                break;
            }
            case 3: { size_t rr = ZSTD_DCtx_loadDictionary(k.d, dict.p, dict.n); VF_CHECK(c, !ZSTD_isError(rr), "the compression side accepted this dictionary but ZSTD_DCtx_loadDictionary refuses it: %s", ZSTD_getErrorName(rr)); dn = ZSTD_decompressDCtx(k.d, back.data(), back.size(), frame.p, frame.n); break; }
            default: { size_t rr = ZSTD_DCtx_refPrefix(k.d, dict.p, dict.n); VF_CHECK(c, !ZSTD_isError(rr), "DCtx_refPrefix: %s", ZSTD_getErrorName(rr)); dn = ZSTD_decompressDCtx(k.d, back.data(), back.size(), frame.p, frame.n); break; }
        }
        for (auto o : others) yard.v.push_back(o);
        bool skip_multi_noid = multi && fr.dict_id == 0;   // a frame without ID cannot select from a table: documented limitation
        if (!skip_multi_noid) {
            VF_CHECK(c, !ZSTD_isError(dn), "decoding (%s%s) a frame compressed with the same dictionary (%s, mode %s) failed: %s", md_name[md], multi ? "+multi-DDict table" : "", dk_name[kind], mc_name[mc], ZSTD_getErrorName(dn));
            VF_CHECK(c, dn == x.size() && (x.empty() || !memcmp(back.data(), x.data(), x.size())), "dictionary round trip differs (%s / %s)", mc_name[mc], md_name[md]);
        }
        c.label(std::string("dec:") + md_name[md]);
        if (multi) c.label("dec:multi_ddict_table");
        // independent decoder with the same dictionary (formatted dictionaries are parsed by R itself)
        if (!rawMode || !formatted) {
            conform::Expect ex; std::vector<conform::FrameFacts> facts; bool dict_bad = false;
            std::string v = conform::check(frame.p, frame.n, x.data(), x.size(), d.empty() ? nullptr : d.data(), d.size(), ex, &facts, &dict_bad);
            if (kind == DK_MUTATED && !v.empty() && v.find("rejects") != std::string::npos) c.label("R_rejects_mutated_dictionary_or_frame(not asserted)");
            else VF_CHECK(c, v.empty(), "independent decoder with the same dictionary: %s", v.c_str());
            for (auto& f : facts) { if (f.seq_from_dict) { c.label("frames_referencing_dictionary_content"); loaded_structured = true; } if (f.repeat_tables || f.treeless) { c.label("frames_reusing_dictionary_tables"); if (formatted) loaded_structured = true; } }
        }
        // a frame that names this ID must be refused with a dictionary carrying a different non-zero ID
        if (fr.dict_id != 0 && g_golden.size() > 8) {
            std::vector<uint8_t> other = (kind == DK_GOLDEN || kind == DK_MUTATED) ? d : g_golden;
            uint32_t oid = fr.dict_id + 1 + (uint32_t)t.range(0, 1000); if (oid == 0) oid = 5;
            memcpy(&other[4], &oid, 4);
            ZSTD_DCtx_reset(k.d, ZSTD_reset_session_and_parameters);
            size_t w = ZSTD_decompress_usingDict(k.d, back.data(), back.size(), frame.p, frame.n, other.data(), other.size());
            VF_CHECK(c, ZSTD_isError(w), "frame names dictionary %u; decoding with a dictionary whose ID is %u succeeded", fr.dict_id, oid);
            c.label("wrong_id_refused");
            // ... also on a context that has just decoded with the RIGHT dictionary and was not reset in between (the per-call
            // dictionary API carries no state from one call to the next), with no dictionary and with a raw-content one
            {
                ZSTD_DCtx* ld = ZSTD_createDCtx();
                size_t ok1 = ZSTD_decompress_usingDict(ld, back.data(), back.size(), frame.p, frame.n, dict.p, dict.n);
                VF_CHECK(c, !ZSTD_isError(ok1), "decode with the right dictionary on a fresh context failed: %s", ZSTD_getErrorName(ok1));
                const std::vector<uint8_t>& rawd = dcontent.size() > 8 ? dcontent : x;
                size_t w1 = t.flip() ? ZSTD_decompress_usingDict(ld, back.data(), back.size(), frame.p, frame.n, nullptr, 0)
                                     : ZSTD_decompress_usingDict(ld, back.data(), back.size(), frame.p, frame.n, rawd.data(), rawd.size());
                VF_CHECK(c, ZSTD_isError(w1), "frame names dictionary %u; on a context that had just used that dictionary, decoding it again with no / a raw-content dictionary succeeded (%zu bytes)", fr.dict_id, w1);
                // buffer-less entry point
                size_t b = ZSTD_decompressBegin_usingDict(ld, rawd.data(), rawd.size());
                if (!ZSTD_isError(b)) {
                    size_t cp = 0, op = 0; bool err = false;
                    for (unsigned g = 0; g < 1000000; g++) {
                        size_t need = ZSTD_nextSrcSizeToDecompress(ld);
                        if (need == 0 || cp + need > frame.n) break;
                        size_t wv = ZSTD_decompressContinue(ld, back.data() + op, back.size() - op, frame.p + cp, need);
                        if (ZSTD_isError(wv)) { err = true; break; }
                        cp += need; op += wv;
                    }
                    VF_CHECK(c, err, "frame names dictionary %u; buffer-less decoding with a raw-content dictionary on a reused context completed without an error", fr.dict_id);
                }
                ZSTD_freeDCtx(ld);
                c.label("wrong_id_refused_on_reused_context");
            }
        }
    }
    c.nontrivial = loaded_structured || (kind == DK_RAW && d.size() > 8);
}

// fuzz arm: arbitrary bytes as a dictionary on both sides must be memory-safe
void vf_fuzz_case(vf::Ctx& c) {
    vf::Tape& t = c.t;
    int lvl = (int)t.range_back(0, 22) - 3;
    int mode = (int)t.range_back(0, 5);
    int attach = (int)t.range_back(0, 3);
    size_t split = (size_t)t.range_back(0, 0xFFFF);
    std::vector<uint8_t> bytes = t.rest_bytes();
    size_t dn = bytes.empty() ? 0 : split % (bytes.size() + 1);
    vf::Buf dict(bytes.data(), dn);
    vf::Buf x(bytes.data() + dn, std::min<size_t>(bytes.size() - dn, 4000));
    struct Cx { ZSTD_CCtx* c = ZSTD_createCCtx(); ZSTD_DCtx* d = ZSTD_createDCtx(); ~Cx() { ZSTD_freeCCtx(c); ZSTD_freeDCtx(d); } } k;
    vf::Buf dst(ZSTD_compressBound(x.n) + 64);
    ZSTD_CCtx_setParameter(k.c, ZSTD_c_compressionLevel, lvl);
    ZSTD_CCtx_setParameter(k.c, ZSTD_c_forceAttachDict, attach);
    size_t n = 0, r = 0;
    ZSTD_CDict* cd = nullptr;
    switch (mode) {
        case 0: n = ZSTD_compress_usingDict(k.c, dst.p, dst.n, x.p, x.n, dict.p, dict.n, lvl); break;
        case 1: cd = ZSTD_createCDict(dict.p, dict.n, lvl); if (cd) n = ZSTD_compress_usingCDict(k.c, dst.p, dst.n, x.p, x.n, cd); else r = (size_t)-1; break;
        case 2: r = ZSTD_CCtx_loadDictionary_advanced(k.c, dict.p, dict.n, ZSTD_dlm_byRef, ZSTD_dct_fullDict); if (!ZSTD_isError(r)) n = ZSTD_compress2(k.c, dst.p, dst.n, x.p, x.n); break;
        case 3: r = ZSTD_CCtx_loadDictionary(k.c, dict.p, dict.n); if (!ZSTD_isError(r)) n = ZSTD_compress2(k.c, dst.p, dst.n, x.p, x.n); break;
        case 4: ZSTD_CCtx_setParameter(k.c, ZSTD_c_enableDedicatedDictSearch, 1); r = ZSTD_CCtx_loadDictionary(k.c, dict.p, dict.n); if (!ZSTD_isError(r)) n = ZSTD_compress2(k.c, dst.p, dst.n, x.p, x.n); break;
        default: r = ZSTD_CCtx_refPrefix(k.c, dict.p, dict.n); if (!ZSTD_isError(r)) n = ZSTD_compress2(k.c, dst.p, dst.n, x.p, x.n); break;
    }
    ZSTD_freeCDict(cd);
    (void)ZSTD_getDictID_fromDict(dict.p, dict.n);
    (void)ZDICT_getDictHeaderSize(dict.p, dict.n);
    ZSTD_DDict* dd = ZSTD_createDDict(dict.p, dict.n);
    if (dd) { (void)ZSTD_getDictID_fromDDict(dd); }
    if (!ZSTD_isError(r) && !ZSTD_isError(n)) {
        // the library accepted it: the round trip must hold
        vf::Buf back(x.n + 1);
        size_t w;
        if (mode == 5) { ZSTD_DCtx_refPrefix(k.d, dict.p, dict.n); w = ZSTD_decompressDCtx(k.d, back.p, back.n, dst.p, n); }
        else w = ZSTD_decompress_usingDict(k.d, back.p, back.n, dst.p, n, dict.p, dict.n);
        VF_CHECK(c, !ZSTD_isError(w) && w == x.n && (x.n == 0 || !memcmp(back.p, x.p, x.n)), "arbitrary bytes accepted as a dictionary (mode %d, %zu bytes) but the round trip fails: %s", mode, dn, ZSTD_isError(w) ? ZSTD_getErrorName(w) : "content differs");
        c.nontrivial = dn >= 8;
        if (dn >= 8 && dict.p[0] == 0x37 && dict.p[1] == 0xA4 && dict.p[2] == 0x30 && dict.p[3] == 0xEC && mode != 5) c.label("structured_dictionary_accepted");
    } else c.label("refused");
    ZSTD_freeDDict(dd);
}
