// C09 - truncation, size lies and checksum damage are reported, never accepted.
#include "stream_engine.hpp"
#include <set>

const char* vf_property_id() { return "C09"; }
static bool g_thorough = false;
void vf_setup() { const char* e = getenv("VERIF_TIER"); g_thorough = e && !strcmp(e, "thorough"); }

static void set_dec(ZSTD_DCtx* d, bool magicless) {
    ZSTD_DCtx_reset(d, ZSTD_reset_session_and_parameters);
    if (magicless) ZSTD_DCtx_setParameter(d, ZSTD_d_format, ZSTD_f_zstd1_magicless);
    ZSTD_DCtx_setParameter(d, ZSTD_d_windowLogMax, 31);
}

// streaming decode of bytes[0..n) in fixed chunks; returns true if some call returned 0 (= "frame complete")
static bool stream_reports_complete(ZSTD_DCtx* d, bool magicless, const uint8_t* p, size_t n, size_t ichunk, size_t ocap, size_t* produced, bool* errored) {
    set_dec(d, magicless);
    vf::Buf src(p, n);
    vf::Buf ob(ocap);
    size_t pos = 0; *produced = 0; *errored = false;
    unsigned stall = 0;
    while (true) {
        size_t take = std::min(ichunk, n - pos);
        ZSTD_inBuffer in = {src.p + pos, take, 0};
        ZSTD_outBuffer out = {ob.p, ocap, 0};
        size_t r = ZSTD_decompressStream(d, &out, &in);
        if (getenv("VF_TRACE")) fprintf(stderr, "  sdec take=%zu cap=%zu -> used=%zu made=%zu ret=%zu %s\n", take, ocap, in.pos, out.pos, r, ZSTD_isError(r) ? ZSTD_getErrorName(r) : "");
        if (ZSTD_isError(r)) { *errored = true; return false; }
        *produced += out.pos;
        pos += in.pos;
        if (r == 0) return true;
        if (in.pos == 0 && out.pos == 0) { if (pos >= n || ++stall > 3) return false; } else stall = 0;
        if (pos >= n && out.pos < ocap) return false;
    }
}

void vf_case(vf::Ctx& c) {
    vf::Tape& t = c.t;
    struct Ctxs { ZSTD_CCtx* c = ZSTD_createCCtx(); ZSTD_DCtx* d = ZSTD_createDCtx(); ~Ctxs() { ZSTD_freeCCtx(c); ZSTD_freeDCtx(d); } } k;
    ZSTD_CCtx* cctx = k.c; ZSTD_DCtx* dctx = k.d;
    int part = (int)t.weighted({6, 2});
    if (part == 1) {
        // ---- pledged source size ----
        gen::ParamSet ps = gen::gen_params(t, g_thorough, 3);
        if (gen::estimate_mem(ps) > (700ull << 20)) c.discard("memcap");
        gen::apply_params(cctx, ps, &c);
        gen::ContentInfo ci;
        std::vector<uint8_t> x = gen::gen_content(t, 300u << 10, &ci);
        int mt = t.chance(15) ? (int)t.range(1, 2) : 0;
        if (mt) ZSTD_CCtx_setParameter(cctx, ZSTD_c_nbWorkers, mt);
        unsigned long long pledged;
        switch (t.weighted({3, 2, 2, 1, 2})) {
            case 0: pledged = x.size(); break;
            case 1: pledged = x.size() + 1 + t.range(0, 3); break;
            case 2: pledged = x.size() ? x.size() - 1 - std::min<size_t>(x.size() - 1, (size_t)t.range(0, 3)) : 1; break;
            case 3: pledged = t.range(0, 1u << 20); break;
            default: pledged = x.size() ? (unsigned long long)t.range(0, x.size() * 2) : 2; break;
        }
        bool truth = pledged == x.size();
        size_t r = ZSTD_CCtx_setPledgedSrcSize(cctx, pledged);
        VF_CHECK(c, !ZSTD_isError(r), "setPledgedSrcSize: %s", ZSTD_getErrorName(r));
        c.note("pledge %llu for %zu bytes %s mt=%d", pledged, x.size(), ps.str().c_str(), mt);
        vf::Buf dst(ZSTD_compressBound(x.size()) + 64);
        ZSTD_outBuffer out = {dst.p, dst.n, 0};
        size_t pos = 0;
        bool err = false; size_t code = 0;
        size_t chunk = (size_t)t.pick<size_t>({1u << 20, 1000, 70000, 17});
        while (pos < x.size() && !err) {
            size_t n = std::min(chunk, x.size() - pos);
            ZSTD_inBuffer in = {x.data() + pos, n, 0};
            unsigned guard = 0;
            while (in.pos < in.size) {
                size_t rr = ZSTD_compressStream2(cctx, &out, &in, ZSTD_e_continue);
                if (ZSTD_isError(rr)) { err = true; code = rr; break; }
                VF_CHECK(c, ++guard < 100000, "no progress");
            }
            pos += n;
        }
        if (x.empty()) {
            // zstd.h (setPledgedSrcSize, note 3): a frame begun directly with ZSTD_e_end has its pledge overridden by the
            // size of that call's input, so the frame is begun with a (zero-byte) continue call first
            ZSTD_inBuffer in0 = {x.data(), 0, 0};
            size_t rr = ZSTD_compressStream2(cctx, &out, &in0, ZSTD_e_continue);
            if (ZSTD_isError(rr)) { err = true; code = rr; }
        }
        if (!err) {
            ZSTD_inBuffer in = {nullptr, 0, 0};
            for (unsigned g = 0; g < 100000; g++) {
                size_t rr = ZSTD_compressStream2(cctx, &out, &in, ZSTD_e_end);
                if (ZSTD_isError(rr)) { err = true; code = rr; break; }
                if (rr == 0) break;
            }
        }
        if (truth) {
            VF_CHECK(c, !err, "pledged size was exact (%llu) but compression failed: %s", pledged, ZSTD_getErrorName(code));
            vf::Buf back(x.size());
            set_dec(dctx, ps.get(ZSTD_c_format, 0) == 1);
            size_t d = ZSTD_decompressDCtx(dctx, back.p, back.n, dst.p, out.pos);
            VF_CHECK(c, d == x.size() && (x.empty() || !memcmp(back.p, x.data(), x.size())), "control round trip failed");
            c.label("pledge_exact");
        } else {
            VF_CHECK(c, err, "pledged %llu bytes, supplied %zu, and the end directive completed without an error", pledged, x.size());
            c.label(pledged < x.size() ? "pledge_too_small" : "pledge_too_large");
        }
        c.label("part:pledge");
        c.nontrivial = !truth && x.size() > 0;
        return;
    }
    // ---- one frame, enumerated damage ----
    se::EncOpts eo;
    eo.thorough = g_thorough;
    eo.allow_multi_frame = false;
    eo.max_content = g_thorough ? (1u << 20) : (96u << 10);
    // favour checksum and content size so that the checks that need them have material
    se::EncResult er = se::gen_stream(c, cctx, eo);
    const std::vector<uint8_t>& f = er.out;
    std::vector<uint8_t> x = er.all();
    bool ml = er.magicless;
    fw::Frame fr = fw::walk(f.data(), f.size(), ml);
    VF_CHECK(c, fr.ok && fr.total_size == f.size(), "block walker disagrees with the encoder about the frame (%zu vs %zu)", fr.total_size, f.size());
    // control: the intact frame decodes
    {
        set_dec(dctx, ml);
        vf::Buf out(x.size());
        size_t d = ZSTD_decompressDCtx(dctx, out.p, out.n, f.data(), f.size());
        VF_CHECK(c, !ZSTD_isError(d) && d == x.size(), "control decode failed: %s", ZSTD_isError(d) ? ZSTD_getErrorName(d) : "size");
    }
    // cut points
    std::set<size_t> cuts;
    bool exhaustive = f.size() <= 4096;
    if (exhaustive) for (size_t kx = 1; kx < f.size(); kx++) cuts.insert(kx);
    else {
        // all structural boundaries of the header, the first two and last two blocks and 6 tape-chosen blocks, +-24 bytes; + 64 sampled
        std::vector<size_t> bounds = {0, fr.header_size, f.size(), f.size() - (fr.has_checksum ? 4 : 0)};
        std::set<size_t> bsel;
        size_t nb = fr.blocks.size();
        for (size_t i = 0; i < nb && i < 2; i++) { bsel.insert(i); bsel.insert(nb - 1 - i); }
        for (int i = 0; i < 6; i++) bsel.insert((size_t)t.range(0, nb - 1));
        for (size_t bi : bsel) { auto& b = fr.blocks[bi]; bounds.push_back(b.hdr_off); bounds.push_back(b.hdr_off + 3); bounds.push_back(b.hdr_off + 3 + b.csize); }
        for (size_t b : bounds) for (long dlt = -24; dlt <= 24; dlt++) { long kx = (long)b + dlt; if (kx >= 1 && (size_t)kx < f.size()) cuts.insert((size_t)kx); }
        for (int i = 0; i < 64; i++) cuts.insert((size_t)t.range(1, f.size() - 1));
    }
    size_t ichunk = (size_t)t.pick<size_t>({1u << 20, 1, 7, 300});
    size_t ocap = (size_t)t.pick<size_t>({1u << 17, 1, 100});
    unsigned inside_block = 0, n_stream = 0;
    unsigned stream_every = cuts.size() > 600 ? (unsigned)(cuts.size() / 300) : 1;
    unsigned idx = 0;
    for (size_t kx : cuts) {
        vf::Buf pre(f.data(), kx);
        vf::Buf out(x.size() + 16);
        set_dec(dctx, ml);
        size_t d = ZSTD_decompressDCtx(dctx, out.p, out.n, pre.p, pre.n);
        VF_CHECK(c, ZSTD_isError(d), "one-shot decode of the %zu-byte prefix of a %zu-byte frame reported success (%zu bytes)", kx, f.size(), d);
        if (!ml) {
            d = ZSTD_decompress(out.p, out.n, pre.p, pre.n);
            VF_CHECK(c, ZSTD_isError(d), "ZSTD_decompress of the %zu-byte prefix of a %zu-byte frame reported success", kx, f.size());
        }
        c.label("cuts_oneshot");
        if (kx > 5 && kx > fr.header_size) inside_block++;
        if ((idx++ % stream_every) == 0) {
            size_t produced; bool errored;
            bool complete = stream_reports_complete(dctx, ml, f.data(), kx, ichunk, ocap, &produced, &errored);
            VF_CHECK(c, !complete, "streaming decode of the %zu-byte prefix of a %zu-byte frame returned 0 (frame complete), chunks of %zu, out cap %zu", kx, f.size(), ichunk, ocap);
            n_stream++;
            c.label("cuts_streaming");
            // buffer-less: when the input ends, the decoder must still want bytes
            if (!ml && (idx % 3) == 0) {
                ZSTD_decompressBegin(dctx);
                size_t cp = 0, op = 0; bool bad = false;
                vf::Buf o2(x.size() + 1);
                for (;;) {
                    size_t need = ZSTD_nextSrcSizeToDecompress(dctx);
                    if (need == 0) { c.fail("buffer-less decoder reports completion (nextSrcSizeToDecompress()==0) after %zu bytes of a frame cut at %zu of %zu", cp, kx, f.size()); }
                    if (cp + need > kx) break;  // input ends here and more is wanted: correct
                    size_t w = ZSTD_decompressContinue(dctx, o2.p + op, o2.n - op, f.data() + cp, need);
                    if (ZSTD_isError(w)) { bad = true; break; }
                    cp += need; op += w;
                }
                (void)bad;
                c.label("cuts_bufferless");
            }
        }
    }
    if (exhaustive) c.label("frames_cut_exhaustively");
    // trailing bytes that are not a frame
    if (!ml) {
        for (unsigned n = 1; n <= 8; n++) {
            std::vector<uint8_t> g(f);
            static const uint8_t firsts[] = {0x00, 0xFF, 0x41, 0x7F, 0x29};
            g.push_back(firsts[t.range(0, 4)]);
            for (unsigned i = 1; i < n; i++) g.push_back((uint8_t)t.range(0, 255));
            vf::Buf src(g.data(), g.size());
            vf::Buf out(x.size() + 16);
            size_t d = ZSTD_decompress(out.p, out.n, src.p, src.n);
            VF_CHECK(c, ZSTD_isError(d), "frame followed by %u bytes that are not a frame decoded successfully (%zu bytes)", n, d);
            c.label("trailing_garbage");
        }
    }
    // content-size lies
    if (fr.has_fcs && fr.fcs_bytes) {
        for (unsigned i = 0; i < 6; i++) {
            std::vector<uint8_t> g(f);
            uint64_t old = fw::rdle(g.data() + fr.fcs_off, fr.fcs_bytes), nv;
            uint64_t mask = fr.fcs_bytes == 8 ? ~0ull : ((1ull << (8 * fr.fcs_bytes)) - 1);
            switch (i) { case 0: nv = old + 1; break; case 1: nv = old - 1; break; case 2: nv = 0; break; case 3: nv = old ^ (1ull << t.range(0, 8 * fr.fcs_bytes - 1)); break; default: nv = t.range(0, UINT64_MAX); break; }
            nv &= mask;
            if (nv == old) continue;
            if (fr.fcs_bytes == 8 && nv > (1ull << 40)) nv = (old + 12345) & mask;  // keep allocation sane
            for (unsigned b = 0; b < fr.fcs_bytes; b++) g[fr.fcs_off + b] = (uint8_t)(nv >> (8 * b));
            uint64_t claimed = nv + (fr.fcs_bytes == 2 ? 256 : 0);
            if (claimed > (64ull << 20)) continue;
            // no destination capacity may turn the lie into a success: roomy, exactly the claimed size, exactly the real size, one more / one less
            size_t big = (size_t)std::max<uint64_t>(claimed, x.size()) + 16;
            size_t caps[] = {big, (size_t)claimed, x.size(), x.size() + 1, x.size() ? x.size() - 1 : 0, (size_t)claimed + 1};
            for (size_t cap : caps) {
                vf::Buf out(cap);
                set_dec(dctx, ml);
                size_t d = ZSTD_decompressDCtx(dctx, out.p, out.n, g.data(), g.size());
                VF_CHECK(c, ZSTD_isError(d), "frame whose content-size field was changed from %llu to %llu (actual content %zu) decoded successfully into a destination of %zu bytes", (unsigned long long)old, (unsigned long long)nv, x.size(), cap);
                if (!ml) { d = ZSTD_decompress(out.p, out.n, g.data(), g.size()); VF_CHECK(c, ZSTD_isError(d), "ZSTD_decompress: content-size field changed from %llu to %llu (actual %zu) accepted with a destination of %zu bytes", (unsigned long long)old, (unsigned long long)nv, x.size(), cap); }
                c.label("fcs_lie_capacities");
            }
            size_t produced; bool errored;
            bool complete = stream_reports_complete(dctx, ml, g.data(), g.size(), ichunk, 1u << 17, &produced, &errored);
            VF_CHECK(c, !complete, "streaming: frame with a false content size (%llu for %zu) reported complete", (unsigned long long)claimed, x.size());
            c.label("fcs_lies");
        }
    }
    // checksum damage
    if (fr.has_checksum) {
        for (unsigned bit = 0; bit < 32; bit++) {
            std::vector<uint8_t> g(f);
            g[g.size() - 4 + bit / 8] ^= (uint8_t)(1u << (bit & 7));
            vf::Buf out(x.size() + 16);
            set_dec(dctx, ml);
            size_t d = ZSTD_decompressDCtx(dctx, out.p, out.n, g.data(), g.size());
            VF_CHECK(c, ZSTD_isError(d), "flipping bit %u of the stored checksum went unnoticed by one-shot decoding", bit);
            if ((bit & 3) == 0) {
                size_t produced; bool errored;
                bool complete = stream_reports_complete(dctx, ml, g.data(), g.size(), ichunk, ocap, &produced, &errored);
                VF_CHECK(c, !complete, "flipping bit %u of the stored checksum went unnoticed by streaming decoding", bit);
            }
            c.label("checksum_bitflips");
        }
        // damage inside block content: success is only acceptable with the original bytes
        for (unsigned i = 0; i < 24 && f.size() > fr.header_size + 3; i++) {
            std::vector<uint8_t> g(f);
            size_t at = (size_t)t.range(fr.header_size, f.size() - 5);
            uint8_t m = (uint8_t)(1u << t.range(0, 7));
            g[at] ^= m;
            vf::Buf src(g.data(), g.size());
            vf::Buf out(x.size() + 16);
            set_dec(dctx, ml);
            size_t d = ZSTD_decompressDCtx(dctx, out.p, out.n, src.p, src.n);
            if (!ZSTD_isError(d)) VF_CHECK(c, d == x.size() && (x.empty() || !memcmp(out.p, x.data(), x.size())), "damage at byte %zu (mask %02x) of a checksummed frame decoded successfully to different content", at, m);
            c.label("content_damage");
        }
    }
    // the same damage must be reported when the damaged frame is not the first thing the decoder sees: after a frame WITHOUT
    // checksum in the same input, and on a context that decoded such a frame before (session reset only / no reset)
    if (fr.has_checksum && !ml) {
        std::vector<uint8_t> plain(40), pre(ZSTD_compressBound(40));
        for (size_t i = 0; i < plain.size(); i++) plain[i] = (uint8_t)('a' + i % 7);
        size_t pn = ZSTD_compress(pre.data(), pre.size(), plain.data(), plain.size(), 1);   // default parameters: no checksum
        VF_CHECK(c, !ZSTD_isError(pn), "setup");
        pre.resize(pn);
        for (unsigned v = 0; v < 3; v++) {
            std::vector<uint8_t> g(f);
            if (v == 0) g[g.size() - 1 - (size_t)t.range(0, 3)] ^= (uint8_t)(1u << t.range(0, 7));   // stored checksum
            else { size_t at = (size_t)t.range(fr.header_size, f.size() - 5); g[at] ^= (uint8_t)(1u << t.range(0, 7)); }   // content
            std::vector<uint8_t> both(pre); both.insert(both.end(), g.begin(), g.end());
            vf::Buf out(plain.size() + x.size() + 16);
            // one call over [frame without checksum][damaged checksummed frame]
            size_t d = ZSTD_decompress(out.p, out.n, both.data(), both.size());
            if (!ZSTD_isError(d)) VF_CHECK(c, v != 0 && d == plain.size() + x.size() && !memcmp(out.p + plain.size(), x.data(), x.size()), "a damaged checksummed frame that follows a frame without checksum in the same input was accepted by ZSTD_decompress (%s damaged)", v == 0 ? "stored checksum" : "content");
            // a context that decoded a frame without checksum, then the damaged frame: no reset / session reset only
            ZSTD_DCtx* ld = ZSTD_createDCtx();
            size_t d0 = ZSTD_decompressDCtx(ld, out.p, out.n, pre.data(), pre.size());
            VF_CHECK(c, !ZSTD_isError(d0), "setup decode");
            if (t.flip()) ZSTD_DCtx_reset(ld, ZSTD_reset_session_only);
            d = ZSTD_decompressDCtx(ld, out.p, out.n, g.data(), g.size());
            if (!ZSTD_isError(d)) VF_CHECK(c, v != 0 && d == x.size() && (x.empty() || !memcmp(out.p, x.data(), x.size())), "a damaged checksummed frame was accepted by a context that had decoded a frame without checksum before (%s damaged)", v == 0 ? "stored checksum" : "content");
            // streaming over the concatenation
            ZSTD_DCtx_reset(ld, ZSTD_reset_session_only);
            {
                ZSTD_inBuffer in = {both.data(), both.size(), 0}; std::vector<uint8_t> acc; bool err = false; size_t r = 1;
                vf::Buf ob(4096);
                for (unsigned gd = 0; gd < 1000000 && in.pos < in.size; gd++) { ZSTD_outBuffer o = {ob.p, ob.n, 0}; size_t ip = in.pos; r = ZSTD_decompressStream(ld, &o, &in); if (ZSTD_isError(r)) { err = true; break; } acc.insert(acc.end(), ob.p, ob.p + o.pos); if (in.pos == ip && o.pos == 0) break; }
                if (!err && r == 0) VF_CHECK(c, v != 0 && acc.size() == plain.size() + x.size() && !memcmp(acc.data() + plain.size(), x.data(), x.size()), "streaming over [frame without checksum][damaged checksummed frame] reported both frames complete (%s damaged)", v == 0 ? "stored checksum" : "content");
            }
            ZSTD_freeDCtx(ld);
            c.label("checksum_damage_after_unchecked_frame");
        }
    }
    if (fr.has_checksum) c.label("frame_with_checksum");
    if (fr.has_fcs) c.label("frame_with_fcs");
    c.label("part:cuts");
    c.maxi("max_frame_size", f.size());
    c.nontrivial = inside_block > 0 && n_stream > 0;
}
