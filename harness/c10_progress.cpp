// C10 - streaming calls always progress; a completed flush is decodable; the hint-following reader
// never asks past the end of the frame.
#include "stream_engine.hpp"

const char* vf_property_id() { return "C10"; }
static bool g_thorough = false;
void vf_setup() { const char* e = getenv("VERIF_TIER"); g_thorough = e && !strcmp(e, "thorough"); }

// (c) feed the decoder exactly what it asks for; unrelated bytes follow the frame.
static void hint_reader(vf::Ctx& c, ZSTD_DCtx* dctx, const se::EncResult& er, const se::Frame& fr, const std::vector<uint8_t>& x, bool tiny_out) {
    ZSTD_DCtx_reset(dctx, ZSTD_reset_session_and_parameters);
    if (er.magicless) ZSTD_DCtx_setParameter(dctx, ZSTD_d_format, ZSTD_f_zstd1_magicless);
    ZSTD_DCtx_setParameter(dctx, ZSTD_d_windowLogMax, 31);
    if (c.t.chance(30)) { ZSTD_DCtx_setParameter(dctx, ZSTD_d_forceIgnoreChecksum, 1); c.label("hint_reader_ignores_checksum"); }
    size_t hint = ZSTD_initDStream(dctx);
    VF_CHECK(c, !ZSTD_isError(hint), "initDStream: %s", ZSTD_getErrorName(hint));
    if (er.magicless) ZSTD_DCtx_setParameter(dctx, ZSTD_d_format, ZSTD_f_zstd1_magicless);
    size_t flen = fr.cEnd - fr.cBegin;
    // the frame followed by bytes that are not part of it
    std::vector<uint8_t> buf(er.out.begin() + (long)fr.cBegin, er.out.begin() + (long)fr.cEnd);
    for (int i = 0; i < 64; i++) buf.push_back((uint8_t)(0xA5 ^ i));
    size_t cpos = 0, dpos = 0;
    size_t dlen = fr.dEnd - fr.dBegin;
    std::vector<uint8_t> regen;
    unsigned calls = 0;
    size_t ocap = tiny_out ? 1 : 131072 + 7;
    vf::Buf ob(ocap);
    for (;;) {
        VF_CHECK(c, ++calls < 40000000, "hint-following reader does not terminate");
        VF_CHECK(c, cpos + hint <= flen, "decoder asks for %zu bytes at offset %zu but only %zu remain in the frame (frame size %zu, %s)", hint, cpos, flen - cpos, flen, fr.skippable ? "skippable" : "compressed");
        vf::Buf piece(buf.data() + cpos, hint);  // exactly the bytes asked for, from an exact-size block
        ZSTD_inBuffer in = {piece.p, hint, 0};
        size_t r = hint;
        // drain: with no new input the decoder may still have output to flush
        do {
            ZSTD_outBuffer out = {ob.p, ocap, 0};
            size_t ip0 = in.pos;
            r = ZSTD_decompressStream(dctx, &out, &in);
            if (!ZSTD_isError(r) && r != 0 && ip0 < in.size) VF_CHECK(c, in.pos != ip0 || out.pos != 0, "hint reader: call with %zu input bytes and %zu room made no progress", in.size - ip0, ocap);
            VF_CHECK(c, !ZSTD_isError(r), "hint reader: decompressStream failed at %zu/%zu: %s", cpos + in.pos, flen, ZSTD_getErrorName(r));
            regen.insert(regen.end(), ob.p, ob.p + out.pos);
            dpos += out.pos;
            VF_CHECK(c, ++calls < 40000000, "hint-following reader does not terminate");
            if (r == 0) break;
            if (in.pos == in.size && out.pos < out.size) break;  // wants more input
        } while (1);
        cpos += in.pos;
        VF_CHECK(c, in.pos == in.size || r == 0, "decoder left %zu of the %zu bytes it asked for", in.size - in.pos, in.size);
        if (r == 0) break;
        hint = r;
    }
    VF_CHECK(c, cpos == flen, "hint-following reader finished after %zu bytes; the frame has %zu", cpos, flen);
    VF_CHECK(c, dpos == dlen && (dlen == 0 || !memcmp(regen.data(), x.data() + fr.dBegin, dlen)), "hint-following reader regenerated %zu bytes, expected %zu (or content differs)", dpos, dlen);
}

void vf_case(vf::Ctx& c) {
    struct Ctxs { ZSTD_CCtx* c = ZSTD_createCCtx(); ZSTD_DCtx* d = ZSTD_createDCtx(); ~Ctxs() { ZSTD_freeCCtx(c); ZSTD_freeDCtx(d); } } k;
    ZSTD_CCtx* cctx = k.c; ZSTD_DCtx* dctx = k.d;
    se::EncOpts eo;
    eo.thorough = g_thorough;
    eo.max_content = g_thorough ? (4u << 20) : (512u << 10);
    eo.flush_weight = 3;
    se::EncResult er = se::gen_stream(c, cctx, eo);   // (a) is asserted on every call inside the engine
    std::vector<uint8_t> x = er.all();
    if (er.nbWorkers) c.label("mt");

    // (b) at every point where a flush returned 0, the bytes so far regenerate the input so far
    unsigned checked = 0;
    size_t nfl = er.flushes.size();
    for (size_t i = 0; i < nfl; i++) {
        // all points when few; otherwise a tape-chosen subset (cost is quadratic)
        if (nfl > 12 && !c.t.chance(100 * 12 / (unsigned)nfl)) continue;
        const se::FlushPoint& fp = er.flushes[i];
        ZSTD_DCtx_reset(dctx, ZSTD_reset_session_and_parameters);
        if (er.magicless) ZSTD_DCtx_setParameter(dctx, ZSTD_d_format, ZSTD_f_zstd1_magicless);
        ZSTD_DCtx_setParameter(dctx, ZSTD_d_windowLogMax, 31);
        vf::Buf src(er.out.data(), fp.cSoFar);
        vf::Buf out(fp.dSoFar + 1024);
        ZSTD_inBuffer in = {src.p, src.n, 0};
        ZSTD_outBuffer ob = {out.p, out.n, 0};
        unsigned guard = 0;
        while (in.pos < in.size) {
            size_t before = in.pos + ob.pos;
            size_t r = ZSTD_decompressStream(dctx, &ob, &in);
            VF_CHECK(c, !ZSTD_isError(r), "flush point %zu (c=%zu d=%zu): decoding the bytes output so far failed: %s", i, fp.cSoFar, fp.dSoFar, ZSTD_getErrorName(r));
            if (in.pos + ob.pos == before && ++guard > 2) break;
        }
        VF_CHECK(c, ob.pos == fp.dSoFar, "after a completed flush %zu output bytes regenerate %zu bytes, but %zu were consumed", fp.cSoFar, ob.pos, fp.dSoFar);
        VF_CHECK(c, fp.dSoFar == 0 || !memcmp(out.p, x.data(), fp.dSoFar), "flush point %zu: regenerated prefix differs from the consumed input", i);
        checked++;
    }
    c.label("flush_points_checked", checked);
    // whole stream: end returned 0 => decoder returns 0 at each frame end (checked inside decode_stream)
    se::DecStats ds;
    std::vector<uint8_t> y = se::decode_stream(c, dctx, er, (int)c.t.weighted({6, 1, 1, 0}), &ds);
    VF_CHECK(c, y == x, "round trip differs");

    // (c) hint-following reader, per frame
    bool big = false;
    for (auto& fr : er.frames) {
        bool tiny = c.t.chance(30) && (fr.dEnd - fr.dBegin) < 200000;
        hint_reader(c, dctx, er, fr, x, tiny);
        if (tiny) c.label("hint_reader_1byte_out");
        if (fr.skippable) c.label("hint_reader_skippable");
        if (!fr.skippable) {
            fw::Frame f = fw::walk(er.out.data() + fr.cBegin, fr.cEnd - fr.cBegin, er.magicless);
            if (f.ok && f.blocks.size() >= 2) big = true;
        }
    }
    c.maxi("flush_points", nfl);
    if (er.mid_flush) c.label("mid_flush");
    c.nontrivial = (er.mid_flush && er.out_full) || big;
}
