// C11 - multithreaded compression is correct, race-free and live under every schedule.
// sched arm : library built with the pthread shim and a small ZSTDMT_JOBSIZE_MIN; the deterministic scheduler takes every
//             interleaving decision from the tape; a state with no runnable thread is a deadlock.
// tsan arm  : same histories, real threads, ThreadSanitizer.
#include "stream_engine.hpp"
#include "conformance.hpp"
#ifdef VF_USE_SCHED
#include "../sched/vs_sched.h"
#endif

const char* vf_property_id() { return "C11"; }
static bool g_thorough = false;
static std::vector<uint8_t> g_golden;
static std::vector<uint8_t> slurp(const std::string& p) { std::vector<uint8_t> v; FILE* f = fopen(p.c_str(), "rb"); if (!f) return v; uint8_t b[4096]; size_t r; while ((r = fread(b, 1, sizeof b, f)) > 0) v.insert(v.end(), b, b + r); fclose(f); return v; }
void vf_setup() {
    const char* e = getenv("VERIF_TIER"); g_thorough = e && !strcmp(e, "thorough");
    const char* repo = getenv("VERIF_REPO"); g_golden = slurp(std::string(repo ? repo : "/repo") + "/tests/golden-dictionaries/http-dict-missing-symbols");
}
extern "C" { extern unsigned long long ZSTD_verif_probe[16]; }

static uint32_t g_rr = 0;
static uint32_t tape_choice(void* op, uint32_t n) { vf::Tape* t = (vf::Tape*)op; if (t->exhausted()) return (g_rr++ * 7 + 3) % n; return (uint32_t)t->range(0, n - 1); }

struct FrameOut { std::vector<uint8_t> bytes; bool ok = true; std::string err; unsigned calls = 0, starved_calls = 0, midframe_updates = 0; };

// one frame through compressStream2 with a generated history; `abandon_after` >= 0 abandons the frame after that many calls
static void mt_frame(vf::Ctx& c, ZSTD_CCtx* cctx, const std::vector<uint8_t>& x, FrameOut& fo, int abandon_after) {
    vf::Tape& t = c.t;
    size_t pos = 0;
    bool ending = false;
    unsigned stall = 0;
    size_t end_bytes = 0;
    int starve_mode = (int)t.weighted({3, 2});   // 1: keep feeding input with no output room for a while (jobs pile up unflushed)
    unsigned starve_left = starve_mode ? (unsigned)t.range(4, 60) : 0;
    for (;;) {
        VF_CHECK(c, fo.calls < 400000, "MT compression did not finish in 400000 calls");
        if (abandon_after >= 0 && (int)fo.calls >= abandon_after) { fo.ok = false; fo.err = "abandoned"; return; }
        size_t remaining = x.size() - pos;
        size_t slice = ending ? remaining : std::min(remaining, se::gen_chunk(t, 131072));
        size_t cap = se::gen_chunk(t, 131072);
        int dir = ZSTD_e_continue;
        unsigned w = (unsigned)t.weighted({7, 2, 2});
        if (w == 1) dir = ZSTD_e_flush; else if (w == 2) dir = ZSTD_e_end;
        if (dir == ZSTD_e_end && slice != remaining) dir = ZSTD_e_continue;
        if (starve_left && remaining > 0 && !ending) { starve_left--; cap = 0; dir = ZSTD_e_continue; if (slice == 0) slice = std::min<size_t>(remaining, 70000); fo.starved_calls++; }
        if (remaining == 0 && !starve_left) dir = ZSTD_e_end;
        if (ending) dir = ZSTD_e_end;
        if (stall >= 1 && cap == 0) cap = 1 + (size_t)t.range(0, 2000);
        if (t.exhausted()) { if (!ending) c.label("frames_finished_by_tape_exhaustion"); slice = std::min<size_t>(remaining, 50000); dir = slice == remaining ? ZSTD_e_end : ZSTD_e_continue; cap = 30000; }
        if (fo.calls > 0 && !ending && !t.exhausted() && t.chance(6)) {
            // zstd.h: with nbWorkers >= 1 the level and the search parameters may be updated in the middle of a frame (applied to
            // the following jobs); the frame header, already written, keeps its window
            int nl = (int)t.irange(-3, 9);
            size_t ur = ZSTD_CCtx_setParameter(cctx, ZSTD_c_compressionLevel, nl);
            VF_CHECK(c, !ZSTD_isError(ur), "updating the compression level mid-frame (nbWorkers >= 1) refused: %s", ZSTD_getErrorName(ur));
            fo.midframe_updates++; c.label("midframe_level_updates");
        }
        std::vector<uint8_t> ob(cap ? cap : 1);
        ZSTD_inBuffer in = {x.data() + pos, slice, 0};
        ZSTD_outBuffer out = {ob.data(), cap, 0};
        size_t r = ZSTD_compressStream2(cctx, &out, &in, (ZSTD_EndDirective)dir);
        fo.calls++;
        if (ZSTD_isError(r)) { fo.ok = false; fo.err = ZSTD_getErrorName(r); return; }
        VF_CHECK(c, in.pos <= in.size && out.pos <= out.size, "pos out of range");
        // zstd.h: with nbWorkers>=1 the call is non-blocking but "guarantees forward progress: it will return only after it reads or writes at least 1+ byte"
        if (slice > 0 && cap > 0) VF_CHECK(c, in.pos || out.pos, "MT compressStream2 call with %zu input bytes and %zu output room made no progress (dir=%d)", slice, cap, dir);
        if (!in.pos && !out.pos) stall++; else stall = 0;
        VF_CHECK(c, stall < 64, "%u consecutive MT calls without progress", stall);
        fo.bytes.insert(fo.bytes.end(), ob.data(), ob.data() + out.pos);
        pos += in.pos;
        if (ending) { end_bytes += out.pos; VF_CHECK(c, end_bytes <= ZSTD_compressBound(x.size()) + 65536, "end directive does not converge (MT)"); }
        if (dir == ZSTD_e_end) ending = true;
        if (dir == ZSTD_e_end && r == 0) { VF_CHECK(c, pos == x.size(), "frame ended with %zu of %zu bytes consumed", pos, x.size()); return; }
    }
}

void vf_case(vf::Ctx& c) {
    vf::Tape& t = c.t;
    g_rr = 0;
#ifdef VF_USE_SCHED
    vs::Config cfg; cfg.choose = tape_choice; cfg.opaque = &t;
    cfg.switch_pct = (unsigned)t.pick<unsigned>({20, 5, 50, 90});
    cfg.spurious_wakeups = t.chance(10);
    cfg.starve_thread = -1;
    vs::begin(cfg);
#endif
    unsigned long long jobs0 = ZSTD_verif_probe[2], full0 = ZSTD_verif_probe[3];
    ZSTD_CCtx* cctx = ZSTD_createCCtx();
    unsigned nframes = (unsigned)t.weighted({5, 3, 2}) + 1;
    std::string failure;
    bool nontrivial = false;
    // zstd.h: a referenced prefix "must outlive compression": an abandoned frame is over once the context is reset or freed,
    // so the buffer is released right after that point and not before
    std::vector<uint8_t> held_dict;
    for (unsigned fi = 0; fi < nframes && failure.empty(); fi++) {
        ZSTD_CCtx_reset(cctx, ZSTD_reset_session_and_parameters);
        { std::vector<uint8_t> release; release.swap(held_dict); }
        int workers = (int)t.range(1, 4);
        gen::ParamSet ps = gen::gen_params(t, false, 3);
        { std::vector<gen::PV> kk; for (auto& q : ps.v) if (q.p != ZSTD_c_format && q.p != ZSTD_c_strategy && q.p != ZSTD_c_compressionLevel && q.p != ZSTD_c_windowLog) kk.push_back(q); ps.v = kk; }
        ps.v.push_back({ZSTD_c_compressionLevel, (int)t.irange(-3, 7), "level"});
        ps.v.push_back({ZSTD_c_nbWorkers, workers, "nbWorkers"});
        int jobSize = 0;
        if (t.chance(75)) { jobSize = (int)t.pick<int>({0, 65536, 65536, 100000, 100000, 300000, 1 << 20}); ps.v.push_back({ZSTD_c_jobSize, jobSize, "jobSize"}); }
        if (t.flip()) ps.v.push_back({ZSTD_c_overlapLog, (int)t.range(0, 9), "overlapLog"});
        // rsyncable relies on jobs >= 512 KiB (the stock ZSTDMT_JOBSIZE_MIN); this build lowers the minimum, so keep the stock precondition by hand
        if (t.chance(25) && (jobSize == 0 || jobSize >= (512 << 10))) ps.v.push_back({ZSTD_c_rsyncable, 1, "rsyncable"});
        if (t.chance(30)) ps.v.push_back({ZSTD_c_enableLongDistanceMatching, 1, "ldm"});
        if (t.chance(50)) ps.v.push_back({ZSTD_c_checksumFlag, 1, "checksum"});
        if (t.chance(40)) ps.v.push_back({ZSTD_c_windowLog, (int)t.range(10, 21), "windowLog"});
        if (gen::estimate_mem(ps) > (400ull << 20)) continue;
        gen::apply_params(cctx, ps, &c);
        std::vector<uint8_t>& dict = held_dict;
        int dk = (int)t.weighted({6, 2, 2});
        if (dk == 1) { dict = t.flip() ? g_golden : gen::gen_content_sized(t, (size_t)t.range(8, 60000)); if (dict != g_golden && dict.size() >= 4 && dict[0] == 0x37 && dict[1] == 0xA4) dict[0] = 1; if (ZSTD_isError(ZSTD_CCtx_loadDictionary(cctx, dict.data(), dict.size()))) { dict.clear(); dk = 0; } }
        if (dk == 2) { dict = gen::gen_content_sized(t, (size_t)t.range(8, 60000)); if (dict.size() >= 4 && dict[0] == 0x37 && dict[1] == 0xA4) dict[0] = 1; ZSTD_CCtx_refPrefix(cctx, dict.data(), dict.size()); }
        gen::ContentInfo ci;
        size_t wl = (size_t)ps.get(ZSTD_c_windowLog, 0);
        size_t maxsz = g_thorough ? (6u << 20) : (1536u << 10);
        std::vector<uint8_t> x = t.chance(60) ? gen::gen_content_sized(t, (size_t)t.range(300u << 10, maxsz), &ci, wl ? (size_t)1 << wl : 0) : gen::gen_content(t, maxsz, &ci, wl ? (size_t)1 << wl : 0);
        if (!dict.empty() && x.size() > 600 && dict.size() > 300) memcpy(&x[t.range(0, 200)], &dict[dict.size() - 256], 256);
        int abandon = t.chance(12) ? (int)t.range(1, 12) : -1;
        FrameOut fo;
        mt_frame(c, cctx, x, fo, abandon);
        c.note("f%u{%s %s dict=%d/%zu calls=%u starved=%u%s} ", fi, ps.str().c_str(), ci.summary().c_str(), dk, dict.size(), fo.calls, fo.starved_calls, abandon >= 0 ? " ABANDONED" : "");
        if (abandon >= 0 && !fo.ok && fo.err == "abandoned") { c.label("frames_abandoned_mid_stream"); continue; }   // next frame reuses the context after a reset
        if (!fo.ok) { if (fo.err.find("llocation") != std::string::npos || fo.err.find("nsupported") != std::string::npos) { c.label("clean_refusal"); continue; } failure = "MT compression failed: " + fo.err; break; }
        // decode + conformance (outside the scheduler's influence: single-threaded code)
        {
            ZSTD_DCtx* d = ZSTD_createDCtx(); ZSTD_DCtx_setParameter(d, ZSTD_d_windowLogMax, 31);
            if (dk == 1) ZSTD_DCtx_loadDictionary(d, dict.data(), dict.size());
            if (dk == 2) ZSTD_DCtx_refPrefix(d, dict.data(), dict.size());
            std::vector<uint8_t> back(x.size() + 1);
            size_t r = ZSTD_decompressDCtx(d, back.data(), back.size(), fo.bytes.data(), fo.bytes.size());
            ZSTD_freeDCtx(d);
            if (ZSTD_isError(r)) failure = std::string("MT frame does not decode: ") + ZSTD_getErrorName(r);
            else if (r != x.size() || (r && memcmp(back.data(), x.data(), r))) failure = "MT frame decodes to different content";
            if (failure.empty() && (dk != 2)) {
                conform::Expect ex; ex.expect_checksum = ps.get(ZSTD_c_checksumFlag, 0);
                std::string v = conform::check(fo.bytes.data(), fo.bytes.size(), x.data(), x.size(), dict.empty() ? nullptr : dict.data(), dict.size(), ex, nullptr);
                if (!v.empty()) failure = "MT frame is not conformant: " + v;
            }
        }
        if (fo.starved_calls) c.label("frames_with_starved_output");
    }
    ZSTD_freeCCtx(cctx);
    { std::vector<uint8_t> release; release.swap(held_dict); }
    unsigned long long jobs = ZSTD_verif_probe[2] - jobs0, full = ZSTD_verif_probe[3] - full0;
#ifdef VF_USE_SCHED
    vs::Report r = vs::end();
    c.label("sched_switches", r.switches); c.label("blocked_events", r.blocked_events);
    c.maxi("max_threads", r.max_threads);
    nontrivial = jobs >= 3 && r.blocked_events > 0;
#else
    nontrivial = jobs >= 3;
#endif
    c.label("mt_jobs_created", jobs);
    c.label("job_table_full_events", full);
    if (full) c.label("cases_with_full_job_table");
    VF_CHECK(c, failure.empty(), "%s", failure.c_str());
    c.nontrivial = nontrivial;
}
