// C12 - thread pool: each accepted job runs exactly once; join, resize, free are safe - under a scheduler that owns
// every interleaving decision at the pthread calls (sched arm), and under ThreadSanitizer with real threads (tsan arm).
#include "vf.h"
#include <atomic>
#include <vector>
extern "C" {
#include "pool.h"
}
#ifdef VF_USE_SCHED
#include "../sched/vs_sched.h"
#endif
#include <pthread.h>
#include <unistd.h>

const char* vf_property_id() { return "C12"; }

struct Model;
struct Job { Model* m; int id; std::atomic<int> runs{0}; int child_kind = 0; /*0 none 1 add 2 tryAdd*/ int child = -1; Job* childp = nullptr; Job* waits_for = nullptr;   /* this job does not finish before that one has started */ std::atomic<bool> accepted{false}; std::atomic<bool> enqueued{false}; /* set once the posting call has RETURNED */ std::atomic<bool> finished_flag{false}; std::atomic<bool> started_flag{false}; };
struct Model {
    POOL_ctx* pool = nullptr;
    std::vector<Job*> jobs;
    std::atomic<int> accepted{0}, started{0}, finished{0};
    vf::Tape* t = nullptr;
    std::atomic<unsigned> nested_posts{0};
    std::atomic<int> limit_in_force{0};   // thread limit after the last POOL_resize that has RETURNED (initially the creation value)
    std::atomic<int> waiter_used{0};
    bool fair = true;   // false under the starvation policy: progress claims are then meaningless
    std::string violation;
    std::atomic<bool> shutting_down{false};
    Job* pending_waiter = nullptr;   // the next posted job becomes its target
    pthread_mutex_t mu = PTHREAD_MUTEX_INITIALIZER;   // harness-side only (real mutex, never contended logically)
};
// scheduler choices come from the tape; once it is exhausted the fallback is a fair rotation (a constant 0 would let one
// thread spin forever on a condition only another thread can change: a livelock of the harness, not of the pool)
static uint32_t g_rr = 0;   // reset at the start of every case: a case is a pure function of its tape
static uint32_t tape_choice(void* op, uint32_t n) { uint32_t& rr = g_rr; vf::Tape* t = (vf::Tape*)op; if (t->exhausted()) return (rr++ * 7 + 3) % n; return (uint32_t)t->range(0, n - 1); }

static void job_fn(void* p) {
    Job* j = (Job*)p; Model* m = j->m;
    m->started++;
    j->started_flag = true;
    j->runs++;
#ifdef VF_USE_SCHED
    vs::yield_point("job body");
#else
    if (j->id & 1) usleep(0);
#endif
#ifdef VF_USE_SCHED
    if (j->waits_for) {
        // A dependent job: it only makes sense while >= 2 workers are allowed, so rounds are counted only then. If the job it
        // waits for has been accepted and still has not STARTED after many scheduling rounds in which a second worker was
        // allowed to run, the queued job is stranded (nobody woke a worker).
        unsigned rounds = 0, total = 0;
        while (!j->waits_for->started_flag && rounds < 4000 && total < 9000) {   // bounded in every case: this loop can never hang a run
            vs::yield_point("dependent job waits");
            total++;
            if (m->fair && j->waits_for->enqueued && m->limit_in_force >= 2) rounds++;
            if (m->shutting_down) break;
        }
        if (!j->waits_for->started_flag && rounds >= 4000) { pthread_mutex_lock(&m->mu); if (m->violation.empty()) m->violation = "a job accepted by the pool was not started for 4000 scheduling rounds although the thread limit allowed a second worker: queued work is stranded"; pthread_mutex_unlock(&m->mu); }
    }
#endif
    if (j->child_kind && j->child >= 0) {
        Job* ch = j->childp;   // (pointer, not an index into a vector another thread may be growing)
        if (j->child_kind == 1) { ch->accepted = true; m->accepted++; POOL_add(m->pool, job_fn, ch); m->nested_posts++; }
        else { if (POOL_tryAdd(m->pool, job_fn, ch)) { ch->accepted = true; ch->enqueued = true; m->accepted++; m->nested_posts++; } }
    }
    j->finished_flag = true;
    m->finished++;
}

struct Client { Model* m; std::vector<uint16_t> prog; };   // ops encoded: kind*16 + arg

static void run_program(Model* m, vf::Tape& t, unsigned nops, size_t queueSize, bool mayResize, unsigned* resizes, unsigned* joins, unsigned* refusals, std::string* viol) {
    for (unsigned i = 0; i < nops; i++) {
        int op = (int)t.weighted({5, 3, 2, 1});   // add, tryAdd, joinJobs, resize
        if (op == 3 && !mayResize) op = 0;
        if (op == 0 || op == 1) {
            pthread_mutex_lock(&m->mu); bool fullup = m->jobs.size() >= 14; pthread_mutex_unlock(&m->mu);
            if (fullup) continue;
            Job* j = new Job(); j->m = m;
            pthread_mutex_lock(&m->mu); j->id = (int)m->jobs.size(); m->jobs.push_back(j);
            if (t.chance(30) && m->jobs.size() < 14) { Job* ch = new Job(); ch->m = m; ch->id = (int)m->jobs.size(); m->jobs.push_back(ch); j->child = ch->id; j->childp = ch; j->child_kind = 2;   /* from inside a job only the non-blocking post is sound: a blocking POOL_add there can wait for the very worker it occupies (a client deadlock, not a pool defect) */ (void)t.flip(); }
            pthread_mutex_unlock(&m->mu);
            if (m->pending_waiter && m->pending_waiter != j) { m->pending_waiter->waits_for = j; m->pending_waiter = nullptr; }
            else if (mayResize && !m->waiter_used && j->child_kind == 0 && t.chance(25)) { m->waiter_used = 1; m->pending_waiter = j; /* waits_for is set when the next job is posted; must be set before this job can run: */ }
            if (m->pending_waiter == j) {
                // the dependent job is posted together with its target, target second, so create the target now
                Job* tg = new Job(); tg->m = m; pthread_mutex_lock(&m->mu); tg->id = (int)m->jobs.size(); m->jobs.push_back(tg); pthread_mutex_unlock(&m->mu);
                j->waits_for = tg; m->pending_waiter = nullptr;
                j->accepted = true; m->accepted++; POOL_add(m->pool, job_fn, j); j->enqueued = true;
                tg->accepted = true; m->accepted++; POOL_add(m->pool, job_fn, tg); tg->enqueued = true;
                continue;
            }
            if (op == 0) { j->accepted = true; m->accepted++; POOL_add(m->pool, job_fn, j); j->enqueued = true; }
            else {
                int outstanding_before = m->accepted - m->finished;
                int queued_upper = m->accepted - m->started;
                if (POOL_tryAdd(m->pool, job_fn, j)) { j->accepted = true; j->enqueued = true; m->accepted++; }
                else {
                    (*refusals)++;
                    // a refusal is only legitimate when the pool could be full: with q>=1 slots, fewer than q accepted-but-unstarted jobs means room
                    // (only when nobody else can post in between: single client, no job that posts a child)
                    bool others_post = !mayResize;   // mayResize == single client
                    pthread_mutex_lock(&m->mu); for (auto q : m->jobs) if (q->child_kind) others_post = true; pthread_mutex_unlock(&m->mu);
                    (void)outstanding_before;
                    if (!others_post && queueSize >= 1 && queued_upper < (int)queueSize && viol->empty()) *viol = "POOL_tryAdd refused although fewer jobs were pending than the queue holds";
                }
            }
        } else if (op == 2) {
            int acc = m->accepted;
            (void)acc;
            std::vector<Job*> before;
            pthread_mutex_lock(&m->mu); for (auto j : m->jobs) if (j->enqueued) before.push_back(j);   /* posts that have returned before this call */ pthread_mutex_unlock(&m->mu);
            POOL_joinJobs(m->pool);
            (*joins)++;
            for (auto j : before) if (!j->finished_flag && viol->empty()) { char b[120]; snprintf(b, sizeof b, "POOL_joinJobs returned while job %d, accepted before the call, had not finished", j->id); *viol = b; }
        } else {
            size_t n = (size_t)t.range(1, 4);
            if (n < 2) m->limit_in_force = (int)n;   // lowering takes effect at once for the model (be conservative)
            POOL_resize(m->pool, n);
            m->limit_in_force = (int)n;
            (*resizes)++;
        }
    }
}

struct Second { Model* m; vf::Tape* t; unsigned nops; size_t q; unsigned res = 0, joins = 0, ref = 0; std::string viol; };
static void* second_client(void* p) { Second* s = (Second*)p; run_program(s->m, *s->t, s->nops, s->q, false, &s->res, &s->joins, &s->ref, &s->viol); return nullptr; }

void vf_case(vf::Ctx& c) {
    vf::Tape& t = c.t;
    g_rr = 0;
    size_t nthreads = (size_t)t.range(1, 3), queueSize = (size_t)t.range(0, 2);
    unsigned nops = (unsigned)t.range(1, 10);
    bool two = t.chance(30);
    Model m; m.t = &t;
    m.jobs.reserve(32);
#ifdef VF_USE_SCHED
    vs::Config cfg; cfg.choose = tape_choice; cfg.opaque = &t;
    cfg.switch_pct = (unsigned)t.pick<unsigned>({35, 10, 70, 100});
    cfg.spurious_wakeups = t.chance(15);
    cfg.starve_thread = t.chance(15) ? (int)t.range(0, nthreads) : -1;
    m.fair = cfg.starve_thread < 0;
    vs::begin(cfg);
#endif
    m.limit_in_force = (int)nthreads;
    m.pool = POOL_create(nthreads, queueSize);
    VF_CHECK(c, m.pool != nullptr, "POOL_create(%zu, %zu) failed", nthreads, queueSize);
    unsigned resizes = 0, joins = 0, refusals = 0;
    std::string viol;
    // the second client draws from its own pre-cut slice of the tape (two real threads must not share one cursor)
    std::vector<uint16_t> sub(48);
    if (two) for (auto& v : sub) v = (uint16_t)t.raw();
    vf::Tape t2; t2.d = sub.data(); t2.n = sub.size();
    Second sec{&m, &t2, two ? (unsigned)t.range(1, 5) : 0, queueSize};
#ifdef VF_USE_SCHED
    int sid = -1; if (two) sid = vs::spawn(second_client, &sec);
#else
    pthread_t st; if (two) pthread_create(&st, nullptr, second_client, &sec);
#endif
    run_program(&m, t, nops, queueSize, !two, &resizes, &joins, &refusals, &viol);
#ifdef VF_USE_SCHED
    if (two) vs::join(sid);
#else
    if (two) pthread_join(st, nullptr);
#endif
    bool final_join = t.flip();
    if (final_join) POOL_joinJobs(m.pool);
    m.shutting_down = true;
    POOL_free(m.pool);   // joins every worker; accepted jobs still queued are run first
#ifdef VF_USE_SCHED
    vs::Report r = vs::end();
    c.label("sched_switches", r.switches); c.label("blocked_events", r.blocked_events); c.label("signals_with_several_waiters", r.signals_with_choice);
    bool blocked = r.blocked_events > 0;
#else
    bool blocked = true;
#endif
    if (viol.empty()) viol = sec.viol;
    if (viol.empty()) viol = m.violation;
    refusals += sec.ref; joins += sec.joins;
    c.note("pool{threads=%zu queue=%zu} ops=%u second_client=%d jobs=%zu nested=%u resizes=%u joins=%u refusals=%u", nthreads, queueSize, nops, (int)two, m.jobs.size(), (unsigned)m.nested_posts, resizes, joins, refusals);
    std::string failmsg;
    for (auto j : m.jobs) {
        int runs = j->runs;
        if (j->accepted && runs != 1 && failmsg.empty()) { char b[120]; snprintf(b, sizeof b, "job %d was accepted by the pool and ran %d times by the time POOL_free returned", j->id, runs); failmsg = b; }
        if (!j->accepted && runs != 0 && failmsg.empty()) { char b[120]; snprintf(b, sizeof b, "job %d was refused (or never posted) but ran %d times", j->id, runs); failmsg = b; }
    }
    for (auto j : m.jobs) delete j;
    VF_CHECK(c, viol.empty(), "%s", viol.c_str());
    VF_CHECK(c, failmsg.empty(), "%s", failmsg.c_str());
    if (resizes) c.label("programs_with_resize");
    if (m.nested_posts) c.label("programs_with_nested_posts");
    if (refusals) c.label("tryAdd_refusals");
    c.nontrivial = blocked && (m.nested_posts > 0 || resizes > 0 || two);
}
