// C13 - allocation failure anywhere: clean error, no crash, no leak, context reusable.
// tape[0]==1: catalogue cell (scenario, k) for the exhaustive enumeration over k; otherwise a generated scenario.
#define ZSTD_STATIC_LINKING_ONLY
#include "zstd.h"
#include "zstd_errors.h"
#include "vf.h"
#include "../gen/content.hpp"
#include "../gen/params.hpp"
#include <mutex>
#include <unordered_map>
#include <atomic>
extern "C" {
#include "pool.h"
}

const char* vf_property_id() { return "C13"; }

// ---- the fault-injecting, bookkeeping allocator ----
struct Alloc {
    std::mutex mu;
    std::unordered_map<void*, size_t> live;
    std::atomic<long> count{0};
    long fail_at = -1, fail_at2 = -1;     // 1-based indices of the allocation calls that return NULL
    long failed = 0;
    std::string error;                    // double free / foreign pointer
    size_t peak = 0, cur = 0;
    void reset(long k = -1, long k2 = -1) { std::lock_guard<std::mutex> g(mu); count = 0; fail_at = k; fail_at2 = k2; failed = 0; }
};
static void* a_alloc(void* op, size_t size) {
    Alloc* a = (Alloc*)op;
    long n = ++a->count;
    if (getenv("VF_C13_TRACE")) fprintf(stderr, "alloc #%ld size %zu%s\n", n, size, (n == a->fail_at || n == a->fail_at2) ? "  <-- FAILS" : "");
    if (n == a->fail_at || n == a->fail_at2) { std::lock_guard<std::mutex> g(a->mu); a->failed++; return nullptr; }
    void* p = malloc(size ? size : 1);
    if (!p) return nullptr;
    memset(p, 0xA7, size);   // never hand out zeroed memory by accident
    std::lock_guard<std::mutex> g(a->mu);
    a->live[p] = size; a->cur += size; if (a->cur > a->peak) a->peak = a->cur;
    return p;
}
static void a_free(void* op, void* p) {
    Alloc* a = (Alloc*)op;
    if (!p) return;
    {
        std::lock_guard<std::mutex> g(a->mu);
        auto it = a->live.find(p);
        if (it == a->live.end()) { if (a->error.empty()) { char b[96]; snprintf(b, sizeof b, "custom free called with %p, which is not a live block of this allocator (double free or foreign pointer)", p); a->error = b; } return; }
        a->cur -= it->second;
        a->live.erase(it);
    }
    free(p);
}

struct Scn {
    int id = 0; int level = 3; int workers = 0; int ldm = 0; int wlog = 0; int strat = 0; int dictKind = 0; int streaming = 0; int nDD = 0; size_t n = 0; int rowmf = 0; int two = 0;
    std::vector<uint8_t> x, dict;
};
static std::vector<uint8_t> g_golden;
static std::vector<uint8_t> slurp(const std::string& p) { std::vector<uint8_t> v; FILE* f = fopen(p.c_str(), "rb"); if (!f) return v; uint8_t b[4096]; size_t r; while ((r = fread(b, 1, sizeof b, f)) > 0) v.insert(v.end(), b, b + r); fclose(f); return v; }
void vf_setup() { const char* repo = getenv("VERIF_REPO"); g_golden = slurp(std::string(repo ? repo : "/repo") + "/tests/golden-dictionaries/http-dict-missing-symbols"); }

static std::vector<uint8_t> sample(size_t n, unsigned salt = 0) { std::vector<uint8_t> v(n); gen::Xs x(salt + 1); for (size_t i = 0; i < n; i++) v[i] = (uint8_t)("the quick brown fox "[i % 20] + ((i / 997 + salt) % 5) + ((x.next() & 31) == 0)); return v; }

// Result of running a scenario once
struct Out { bool failed_call = false; bool ok_roundtrip = true; std::string what; };

// Each scenario creates its objects with the custom allocator, performs its operation, frees everything.
// `retry`: after a failure, reset the session with the allocator healthy and redo the operation on the SAME context.
static void compress_side(vf::Ctx& c, Alloc& A, const Scn& s, Out& o) {
    ZSTD_customMem cm = {a_alloc, a_free, &A};
    ZSTD_CCtx* cctx = ZSTD_createCCtx_advanced(cm);
    if (!cctx) { o.failed_call = true; return; }
    ZSTD_CDict* cd = nullptr;
    std::vector<uint8_t> out(ZSTD_compressBound(s.x.size()) + 64);
    auto attempt = [&](bool healthy) -> size_t {
        size_t r = 0;
        #define TRY(e) do { r = (e); if (ZSTD_isError(r)) return r; } while (0)
        TRY(ZSTD_CCtx_reset(cctx, ZSTD_reset_session_only));
        if (s.two) {
            // an earlier, smaller operation on the same context: the main one must GROW what the first one allocated
            std::vector<uint8_t> small = sample(3000, 77), so(ZSTD_compressBound(3000));
            TRY(ZSTD_CCtx_setParameter(cctx, ZSTD_c_compressionLevel, 1));
            TRY(ZSTD_CCtx_setParameter(cctx, ZSTD_c_windowLog, 10));
            TRY(ZSTD_CCtx_setParameter(cctx, ZSTD_c_nbWorkers, s.workers ? 1 : 0));
            ZSTD_inBuffer i1 = {small.data(), small.size(), 0}; ZSTD_outBuffer o1 = {so.data(), so.size(), 0};
            TRY(ZSTD_compressStream2(cctx, &o1, &i1, ZSTD_e_continue));
            for (unsigned g = 0; g < 100000; g++) { TRY(ZSTD_compressStream2(cctx, &o1, &i1, ZSTD_e_end)); if (r == 0) break; }
            TRY(ZSTD_CCtx_setParameter(cctx, ZSTD_c_windowLog, 0));
        }
        TRY(ZSTD_CCtx_setParameter(cctx, ZSTD_c_compressionLevel, s.level));
        if (s.strat) TRY(ZSTD_CCtx_setParameter(cctx, ZSTD_c_strategy, s.strat));
        if (s.wlog) TRY(ZSTD_CCtx_setParameter(cctx, ZSTD_c_windowLog, s.wlog));
        if (s.ldm) TRY(ZSTD_CCtx_setParameter(cctx, ZSTD_c_enableLongDistanceMatching, 1));
        if (s.rowmf) TRY(ZSTD_CCtx_setParameter(cctx, ZSTD_c_useRowMatchFinder, s.rowmf));
        TRY(ZSTD_CCtx_setParameter(cctx, ZSTD_c_nbWorkers, s.workers));
        TRY(ZSTD_CCtx_setParameter(cctx, ZSTD_c_checksumFlag, 1));
        if (s.dictKind == 1) TRY(ZSTD_CCtx_loadDictionary(cctx, s.dict.data(), s.dict.size()));
        if (s.dictKind == 2) {
            if (!cd) cd = ZSTD_createCDict_advanced(s.dict.data(), s.dict.size(), ZSTD_dlm_byCopy, ZSTD_dct_auto, ZSTD_getCParams(s.level, 0, s.dict.size()), cm);
            if (!cd) return (size_t)-ZSTD_error_memory_allocation;
            TRY(ZSTD_CCtx_refCDict(cctx, cd));
        }
        if (s.dictKind == 3) TRY(ZSTD_CCtx_refPrefix(cctx, s.dict.data(), s.dict.size()));
        if (!s.streaming) { TRY(ZSTD_compress2(cctx, out.data(), out.size(), s.x.data(), s.x.size())); return r; }
        ZSTD_inBuffer in = {s.x.data(), s.x.size(), 0}; ZSTD_outBuffer ob = {out.data(), out.size(), 0};
        size_t step = s.streaming == 2 ? 10000 : s.x.size();
        while (in.pos < s.x.size()) { ZSTD_inBuffer i2 = {s.x.data(), std::min(s.x.size(), in.pos + step), in.pos}; TRY(ZSTD_compressStream2(cctx, &ob, &i2, ZSTD_e_continue)); in.pos = i2.pos; }
        for (unsigned g = 0; g < 1000000; g++) { ZSTD_inBuffer i2 = {s.x.data(), s.x.size(), in.pos}; TRY(ZSTD_compressStream2(cctx, &ob, &i2, ZSTD_e_end)); in.pos = i2.pos; if (r == 0) break; }
        (void)healthy;
        return ob.pos;
        #undef TRY
    };
    size_t n = attempt(false);
    if (ZSTD_isError(n)) {
        o.failed_call = true;
        // the same context, after a session reset, with memory available again
        A.fail_at = A.fail_at2 = -1;
        n = attempt(true);
        if (ZSTD_isError(n)) { o.ok_roundtrip = false; o.what = std::string("after the failed call and a session reset, with the allocator healthy, the same operation fails: ") + ZSTD_getErrorName(n); }
    }
    if (!ZSTD_isError(n)) {
        std::vector<uint8_t> back(s.x.size());
        ZSTD_DCtx* dd = ZSTD_createDCtx();
        // a prefix is raw content whatever its first bytes look like: decode it as a prefix too
        if (s.dictKind == 3) ZSTD_DCtx_refPrefix(dd, s.dict.data(), s.dict.size());
        size_t d = (s.dictKind == 1 || s.dictKind == 2) ? ZSTD_decompress_usingDict(dd, back.data(), back.size(), out.data(), n, s.dict.data(), s.dict.size()) : ZSTD_decompressDCtx(dd, back.data(), back.size(), out.data(), n);
        ZSTD_freeDCtx(dd);
        if ((ZSTD_isError(d) || d != s.x.size() || back != s.x) && getenv("VF_DUMP")) {
            std::string dir = getenv("VF_DUMP");
            FILE* f1 = fopen((dir + "/x.bin").c_str(), "wb"); fwrite(s.x.data(), 1, s.x.size(), f1); fclose(f1);
            FILE* f2 = fopen((dir + "/dict.bin").c_str(), "wb"); fwrite(s.dict.data(), 1, s.dict.size(), f2); fclose(f2);
            FILE* f3 = fopen((dir + "/frame.zst").c_str(), "wb"); fwrite(out.data(), 1, n, f3); fclose(f3);
        }
        if (ZSTD_isError(d) || d != s.x.size() || back != s.x) { o.ok_roundtrip = false; o.what = std::string("frame produced around an allocation failure does not round trip: ") + (ZSTD_isError(d) ? ZSTD_getErrorName(d) : "content differs"); }
    }
    ZSTD_freeCCtx(cctx);
    ZSTD_freeCDict(cd);
    (void)c;
}

static void decompress_side(vf::Ctx& c, Alloc& A, const Scn& s, Out& o) {
    ZSTD_customMem cm = {a_alloc, a_free, &A};
    // a frame made with the default allocator
    std::vector<uint8_t> f(ZSTD_compressBound(s.x.size()));
    {
        ZSTD_CCtx* cc = ZSTD_createCCtx();
        ZSTD_CCtx_setParameter(cc, ZSTD_c_compressionLevel, s.level);
        if (s.wlog) ZSTD_CCtx_setParameter(cc, ZSTD_c_windowLog, s.wlog);
        if (s.dictKind) ZSTD_CCtx_loadDictionary(cc, s.dict.data(), s.dict.size());
        ZSTD_inBuffer in = {s.x.data(), s.x.size(), 0}; ZSTD_outBuffer ob = {f.data(), f.size(), 0};
        ZSTD_compressStream2(cc, &ob, &in, ZSTD_e_continue); while (ZSTD_compressStream2(cc, &ob, &in, ZSTD_e_end)) {}
        f.resize(ob.pos); ZSTD_freeCCtx(cc);
    }
    std::vector<uint8_t> f0;   // small-window frame decoded first when s.two: the main frame needs bigger stream buffers
    if (s.two) {
        std::vector<uint8_t> small = sample(5000, 78); f0.resize(ZSTD_compressBound(small.size()));
        ZSTD_CCtx* cc = ZSTD_createCCtx(); ZSTD_CCtx_setParameter(cc, ZSTD_c_windowLog, 10);
        ZSTD_inBuffer in = {small.data(), small.size(), 0}; ZSTD_outBuffer ob = {f0.data(), f0.size(), 0};
        ZSTD_compressStream2(cc, &ob, &in, ZSTD_e_continue); while (ZSTD_compressStream2(cc, &ob, &in, ZSTD_e_end)) {}
        f0.resize(ob.pos); ZSTD_freeCCtx(cc);
    }
    ZSTD_DCtx* d = ZSTD_createDCtx_advanced(cm);
    if (!d) { o.failed_call = true; return; }
    std::vector<ZSTD_DDict*> dds;
    std::vector<uint8_t> back(s.x.size() + 1);
    auto attempt = [&]() -> size_t {
        size_t r;
        #define TRY(e) do { r = (e); if (ZSTD_isError(r)) return r; } while (0)
        TRY(ZSTD_DCtx_reset(d, ZSTD_reset_session_only));
        if (s.two) {
            std::vector<uint8_t> tmp(6000);
            ZSTD_inBuffer in = {f0.data(), f0.size(), 0}; ZSTD_outBuffer ob = {tmp.data(), tmp.size(), 0};
            for (unsigned g = 0; g < 100000; g++) { ZSTD_inBuffer i2 = {f0.data(), std::min(f0.size(), in.pos + 300), in.pos}; TRY(ZSTD_decompressStream(d, &ob, &i2)); in.pos = i2.pos; if (r == 0 && in.pos == f0.size()) break; }
        }
        if (s.nDD) {
            TRY(ZSTD_DCtx_setParameter(d, ZSTD_d_refMultipleDDicts, ZSTD_rmd_refMultipleDDicts));
            // table growth: many DDicts with distinct IDs, the right one among them
            for (int i = (int)dds.size(); i < s.nDD; i++) {
                std::vector<uint8_t> dv = g_golden; uint32_t id = 1000 + (uint32_t)i * 7919; memcpy(&dv[4], &id, 4);
                ZSTD_DDict* dd = ZSTD_createDDict_advanced(dv.data(), dv.size(), ZSTD_dlm_byCopy, ZSTD_dct_auto, cm);
                if (!dd) return (size_t)-ZSTD_error_memory_allocation;
                dds.push_back(dd);
                TRY(ZSTD_DCtx_refDDict(d, dd));
            }
        }
        if (s.dictKind == 1) TRY(ZSTD_DCtx_loadDictionary(d, s.dict.data(), s.dict.size()));
        if (s.dictKind == 2) {
            ZSTD_DDict* dd = ZSTD_createDDict_advanced(s.dict.data(), s.dict.size(), ZSTD_dlm_byCopy, ZSTD_dct_auto, cm);
            if (!dd) return (size_t)-ZSTD_error_memory_allocation;
            dds.push_back(dd);
            TRY(ZSTD_DCtx_refDDict(d, dd));
        }
        if (!s.streaming) { TRY(ZSTD_decompressDCtx(d, back.data(), back.size(), f.data(), f.size())); return r; }
        ZSTD_inBuffer in = {f.data(), f.size(), 0}; ZSTD_outBuffer ob = {back.data(), back.size(), 0};
        for (unsigned g = 0; g < 1000000; g++) {
            ZSTD_inBuffer i2 = {f.data(), std::min(f.size(), in.pos + 777), in.pos};
            TRY(ZSTD_decompressStream(d, &ob, &i2)); in.pos = i2.pos;
            if (r == 0 && in.pos == f.size()) break;
        }
        return ob.pos;
        #undef TRY
    };
    size_t n = attempt();
    if (ZSTD_isError(n)) {
        o.failed_call = true;
        A.fail_at = A.fail_at2 = -1;
        n = attempt();
        if (ZSTD_isError(n)) { o.ok_roundtrip = false; o.what = std::string("after the failed call and a session reset, with the allocator healthy, decoding fails: ") + ZSTD_getErrorName(n); }
    }
    if (!ZSTD_isError(n) && (n != s.x.size() || (n && memcmp(back.data(), s.x.data(), n)))) { o.ok_roundtrip = false; o.what = "decoded content differs after an allocation failure"; }
    ZSTD_freeDCtx(d);
    for (auto dd : dds) ZSTD_freeDDict(dd);
    (void)c;
}

static void pool_side(vf::Ctx& c, Alloc& A, const Scn& s, Out& o) {
    ZSTD_customMem cm = {a_alloc, a_free, &A};
    POOL_ctx* p = POOL_create_advanced((size_t)(1 + s.workers), (size_t)s.level % 4, cm);
    if (!p) { o.failed_call = true; return; }
    static std::atomic<int> ran; ran = 0;
    for (int i = 0; i < 5; i++) POOL_add(p, [](void* a) { (*(std::atomic<int>*)a)++; }, &ran);
    if (POOL_resize(p, (size_t)(2 + s.workers))) o.failed_call = true;
    for (int i = 0; i < 5; i++) POOL_add(p, [](void* a) { (*(std::atomic<int>*)a)++; }, &ran);
    POOL_joinJobs(p);
    if (ran != 10) { o.ok_roundtrip = false; o.what = "thread pool lost a job around an allocation failure"; }
    POOL_free(p);
    (void)c;
}

static const int NSCN = 27;
static Scn catalogue(int id) {
    Scn s; s.id = id;
    s.x = sample(200000, (unsigned)id);
    switch (id) {
        case 0: s.level = 1; s.x = sample(1000); break;
        case 1: s.level = 3; break;
        case 2: s.level = 7; s.rowmf = 1; break;
        case 3: s.level = 13; s.x = sample(60000); break;
        case 4: s.level = 19; s.x = sample(30000); break;
        case 5: s.level = 3; s.ldm = 1; s.wlog = 20; break;
        case 6: s.level = 3; s.streaming = 2; break;
        case 7: s.level = 3; s.streaming = 1; s.wlog = 12; break;
        case 8: s.level = 3; s.workers = 1; s.streaming = 2; s.x = sample(1300000); break;
        case 9: s.level = 3; s.workers = 3; s.streaming = 2; s.ldm = 1; s.x = sample(1300000); break;
        case 10: s.level = 3; s.dictKind = 1; s.dict = g_golden; break;
        case 11: s.level = 3; s.dictKind = 2; s.dict = g_golden; break;
        case 12: s.level = 5; s.dictKind = 1; s.dict = sample(30000, 9); break;
        case 13: s.level = 3; s.dictKind = 3; s.dict = sample(30000, 9); break;
        case 14: s.level = -3; s.x = sample(5000); break;
        // decompression side (id >= 15)
        case 15: s.level = 3; break;
        case 16: s.level = 3; s.streaming = 1; s.wlog = 17; break;
        case 17: s.level = 3; s.streaming = 1; s.dictKind = 1; s.dict = g_golden; break;
        case 18: s.level = 3; s.streaming = 1; s.dictKind = 2; s.dict = g_golden; break;
        case 19: s.level = 3; s.streaming = 1; s.nDD = 40; break;
        // pool (id 20, 21)
        case 20: s.level = 0; s.workers = 0; break;
        case 21: s.level = 2; s.workers = 2; break;
        // two operations on one context: the second must grow what the first allocated (ids 22..26)
        case 22: s.level = 9; s.two = 1; break;                                   // CCtx workspace growth
        case 23: s.level = 3; s.two = 1; s.workers = 3; s.streaming = 2; s.x = sample(1300000); break;   // MT resize 1 -> 3 workers
        case 24: s.level = 3; s.two = 1; s.streaming = 2; s.ldm = 1; s.wlog = 21; break;
        case 25: s.level = 3; s.two = 1; s.streaming = 1; s.wlog = 20; s.x = sample(400000); break;     // DCtx stream buffers growth
        default: s.level = 3; s.two = 1; s.streaming = 1; s.wlog = 18; s.dictKind = 1; s.dict = g_golden; break;
    }
    return s;
}

static void run_scn(vf::Ctx& c, Alloc& A, const Scn& s, Out& o) {
    if (s.id == 20 || s.id == 21) pool_side(c, A, s, o);
    else if ((s.id >= 15 && s.id < 20) || s.id >= 25) decompress_side(c, A, s, o);
    else compress_side(c, A, s, o);
}

static long count_allocs(vf::Ctx& c, const Scn& s) {
    Alloc A; A.reset(-1);
    Out o;
    run_scn(c, A, s, o);
    VF_CHECK(c, !o.failed_call && o.ok_roundtrip, "scenario %d fails with a healthy allocator: %s", s.id, o.what.c_str());
    VF_CHECK(c, A.error.empty(), "scenario %d, healthy allocator: %s", s.id, A.error.c_str());
    VF_CHECK(c, A.live.empty(), "scenario %d, healthy allocator: %zu blocks (%zu bytes) never returned through the custom free", s.id, A.live.size(), A.cur);
    return A.count;
}

static void fault_run(vf::Ctx& c, const Scn& s, long k, long k2, long total) {
    Alloc A; A.reset(k, k2);
    Out o;
    run_scn(c, A, s, o);
    VF_CHECK(c, A.error.empty(), "scenario %d, allocation #%ld of %ld failing: %s", s.id, k, total, A.error.c_str());
    if (getenv("VF_C13_TRACE")) for (auto& kv : A.live) fprintf(stderr, "LEAKED block of %zu bytes\n", kv.second);
    VF_CHECK(c, A.live.empty(), "scenario %d, allocation #%ld of %ld failing: %zu blocks (%zu bytes) were never returned through the custom free", s.id, k, total, A.live.size(), A.cur);
    VF_CHECK(c, o.ok_roundtrip, "scenario %d, allocation #%ld of %ld failing: %s", s.id, k, total, o.what.c_str());
    if (A.failed) c.label("faults_injected"); else c.label("fault_index_not_reached");
    if (o.failed_call) c.label("calls_that_reported_failure");
    else if (A.failed) c.label("failure_absorbed_without_error");
}

void vf_case(vf::Ctx& c) {
    vf::Tape& t = c.t;
    unsigned mode = (unsigned)t.raw();
    if (mode == 1) {
        // catalogue: scenario id; all k in 1..a(S) in one cell (exhaustive over k)
        int id = (int)(t.raw() % NSCN);
        Scn s = catalogue(id);
        long total = count_allocs(c, s);
        c.note("catalogue scenario %d: %ld allocations, every k failed in turn", id, total);
        c.maxi("max_allocations_in_a_scenario", (uint64_t)total);
        bool threaded = s.workers > 0 && (s.id < 15 || s.id == 23);
        // threaded scenarios: the worker-side allocation order is not fixed, so k is swept further to cover the tail
        long upto = threaded ? total + 8 : total;
        for (long k = 1; k <= upto; k++) { fault_run(c, s, k, -1, total); c.label("catalogue_fault_runs"); }
        c.label("catalogue_scenarios");
        c.nontrivial = total >= 2;
        return;
    }
    // generated scenario from the same grammar, one or two faults at generated indices
    Scn s;
    s.id = (int)t.weighted({6, 3, 1}) == 0 ? 1 : 0;
    int side = (int)t.weighted({6, 3, 1});
    s.id = side == 0 ? 1 : side == 1 ? 15 : 20;   // (side selects compress / decompress / pool)
    s.level = (int)t.irange(-5, 19);
    s.workers = (side != 1 && t.chance(25)) ? (int)t.range(1, 3) : 0;
    s.ldm = t.chance(20); s.wlog = t.chance(40) ? (int)t.range(10, 22) : 0;
    s.strat = t.chance(30) ? (int)t.range(1, 9) : 0;
    s.rowmf = t.chance(20) ? (int)t.range(1, 2) : 0;
    s.dictKind = t.chance(40) ? (int)t.range(1, side == 1 ? 2 : 3) : 0;
    s.streaming = (int)t.range(0, 2);
    s.nDD = (side == 1 && t.chance(25)) ? (int)t.range(1, 48) : 0;
    s.two = t.chance(40);
    if (s.nDD) { s.dictKind = 0; }
    size_t maxn = (s.level >= 16 || s.strat >= 7) ? 40000 : (s.workers ? 1500000 : 300000);
    gen::ContentInfo ci;
    s.x = gen::gen_content(t, maxn, &ci);
    if (s.dictKind) s.dict = t.flip() ? g_golden : sample((size_t)t.range(8, 50000), 5);
    c.note("generated side=%d level=%d workers=%d ldm=%d wlog=%d strat=%d dict=%d/%zu stream=%d nDD=%d n=%zu ", side, s.level, s.workers, s.ldm, s.wlog, s.strat, s.dictKind, s.dict.size(), s.streaming, s.nDD, s.x.size());
    long total = count_allocs(c, s);
    long k = (long)t.range(1, (uint64_t)std::max<long>(1, total));
    long k2 = t.chance(35) ? (long)t.range((uint64_t)k, (uint64_t)total + 3) : -1;
    c.note("generated side=%d level=%d workers=%d ldm=%d wlog=%d strat=%d dict=%d stream=%d nDD=%d n=%zu: %ld allocs, fail #%ld and #%ld", side, s.level, s.workers, s.ldm, s.wlog, s.strat, s.dictKind, s.streaming, s.nDD, s.x.size(), total, k, k2);
    fault_run(c, s, k, k2, total);
    c.label("generated_scenarios");
    c.nontrivial = k > 1;
}
