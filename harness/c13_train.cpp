// C13 (training arm) - allocation failure anywhere in dictionary training: clean error, no crash, no leak, and the same
// call succeeds with the same result once memory is available.
// The library is the `fault` build: every malloc/calloc/free of the library sources is redirected (fault/vf_malloc.h) to the
// counting, failable hooks below. A case = (trainer, sample set, parameters); inside the case EVERY allocation index
// k = 1..N of that call is failed in turn.
#define ZSTD_STATIC_LINKING_ONLY
#define ZDICT_STATIC_LINKING_ONLY
#include "zstd.h"
#include "zdict.h"
#include "vf.h"
#include "../gen/content.hpp"
#include <mutex>
#include <unordered_map>
#include <atomic>

const char* vf_property_id() { return "C13"; }

static std::mutex g_mu;
static std::unordered_map<void*, size_t> g_live;
static std::atomic<long> g_count{0};
static long g_fail_at = -1;
static std::atomic<long> g_failed{0};
static std::string g_err;
extern "C" void* vf_malloc(size_t n) {
    long i = ++g_count;
    if (i == g_fail_at) { g_failed++; return nullptr; }
    void* p = malloc(n ? n : 1);
    if (!p) return nullptr;
    memset(p, 0xB3, n);
    std::lock_guard<std::mutex> g(g_mu); g_live[p] = n; return p;
}
extern "C" void* vf_calloc(size_t n, size_t s) {
    long i = ++g_count;
    if (i == g_fail_at) { g_failed++; return nullptr; }
    void* p = calloc(n ? n : 1, s ? s : 1);
    if (!p) return nullptr;
    std::lock_guard<std::mutex> g(g_mu); g_live[p] = n * s; return p;
}
extern "C" void vf_free(void* p) {
    if (!p) return;
    {
        std::lock_guard<std::mutex> g(g_mu);
        auto it = g_live.find(p);
        if (it == g_live.end()) { if (g_err.empty()) { char b[96]; snprintf(b, sizeof b, "free(%p) of a block that is not live (double free or foreign pointer)", p); g_err = b; } return; }
        g_live.erase(it);
    }
    free(p);
}
static void arm(long k) { std::lock_guard<std::mutex> g(g_mu); g_count = 0; g_fail_at = k; g_failed = 0; g_err.clear(); }

struct Job {
    int trainer = 0;   // 0 trainFromBuffer 1 cover 2 fastCover 3 optimize cover 4 optimize fastCover 5 legacy 6 finalizeDictionary 7 addEntropyTables
    std::vector<uint8_t> samples; std::vector<size_t> sizes; size_t cap = 0;
    unsigned k = 0, d = 0, f = 0, steps = 0, threads = 0, accel = 1, shrink = 0; double split = 1.0; int level = 3; unsigned dictID = 0;
    std::vector<uint8_t> content;
};
static const char* tname[] = {"ZDICT_trainFromBuffer", "ZDICT_trainFromBuffer_cover", "ZDICT_trainFromBuffer_fastCover", "ZDICT_optimizeTrainFromBuffer_cover", "ZDICT_optimizeTrainFromBuffer_fastCover", "ZDICT_trainFromBuffer_legacy", "ZDICT_finalizeDictionary", "ZDICT_addEntropyTablesFromBuffer"};

static size_t run(const Job& J, std::vector<uint8_t>& out) {
    out.assign(J.cap, 0);
    ZDICT_params_t zp; memset(&zp, 0, sizeof zp); zp.compressionLevel = J.level; zp.dictID = J.dictID;
    const void* sb = J.samples.data(); const size_t* ss = J.sizes.data(); unsigned ns = (unsigned)J.sizes.size();
    switch (J.trainer) {
        case 0: return ZDICT_trainFromBuffer(out.data(), out.size(), sb, ss, ns);
        case 1: { ZDICT_cover_params_t p; memset(&p, 0, sizeof p); p.k = J.k; p.d = J.d; p.splitPoint = J.split; p.zParams = zp; return ZDICT_trainFromBuffer_cover(out.data(), out.size(), sb, ss, ns, p); }
        case 2: { ZDICT_fastCover_params_t p; memset(&p, 0, sizeof p); p.k = J.k; p.d = J.d; p.f = J.f; p.accel = J.accel; p.splitPoint = J.split; p.zParams = zp; return ZDICT_trainFromBuffer_fastCover(out.data(), out.size(), sb, ss, ns, p); }
        case 3: { ZDICT_cover_params_t p; memset(&p, 0, sizeof p); p.d = J.d; p.steps = J.steps; p.nbThreads = J.threads; p.splitPoint = J.split; p.shrinkDict = J.shrink; p.zParams = zp; return ZDICT_optimizeTrainFromBuffer_cover(out.data(), out.size(), sb, ss, ns, &p); }
        case 4: { ZDICT_fastCover_params_t p; memset(&p, 0, sizeof p); p.d = J.d; p.f = J.f; p.steps = J.steps; p.nbThreads = J.threads; p.accel = J.accel; p.splitPoint = J.split; p.shrinkDict = J.shrink; p.zParams = zp; return ZDICT_optimizeTrainFromBuffer_fastCover(out.data(), out.size(), sb, ss, ns, &p); }
        case 5: { ZDICT_legacy_params_t p; memset(&p, 0, sizeof p); p.selectivityLevel = J.k % 10; p.zParams = zp; return ZDICT_trainFromBuffer_legacy(out.data(), out.size(), sb, ss, ns, p); }
        case 6: return ZDICT_finalizeDictionary(out.data(), out.size(), J.content.data(), J.content.size(), sb, ss, ns, zp);
        default: {
            size_t cs = std::min(J.content.size(), out.size());
            if (cs) memcpy(out.data() + out.size() - cs, J.content.data(), cs);
            return ZDICT_addEntropyTablesFromBuffer(out.data(), cs, out.size(), sb, ss, ns);
        }
    }
}

void vf_case(vf::Ctx& c) {
    vf::Tape& t = c.t;
    Job J;
    unsigned first = (unsigned)t.raw();
    J.trainer = first == 1 ? (int)(t.raw() % 8) : (int)t.range(0, 7);   // tape[0]==1: one cell of the exhaustive trainer dimension
    // samples: records from a few fields (what a trainer is for), sometimes tiny sets
    gen::Xs x(t.raw() + 5);
    unsigned ns = (unsigned)t.pick<unsigned>({5, 12, 40, 100, 300});
    size_t maxEach = (size_t)t.pick<size_t>({30, 200, 1500});
    static const char* fields[] = {"GET /index.html HTTP/1.1\r\n", "Host: example.com\r\n", "User-Agent: zstd-verif\r\n", "{\"id\": ", ", \"name\": \"", "\"}\n", "Content-Length: ", "Accept: */*\r\n"};
    for (unsigned i = 0; i < ns; i++) {
        size_t len = 8 + x.next() % maxEach, start = J.samples.size();
        while (J.samples.size() - start < len) { const char* fl = fields[x.next() % 8]; for (; *fl && J.samples.size() - start < len; fl++) J.samples.push_back((uint8_t)*fl); J.samples.push_back((uint8_t)('0' + x.next() % 10)); }
        J.samples.resize(start + len); J.sizes.push_back(len);
    }
    J.cap = (size_t)t.pick<size_t>({300, 1000, 4096, 20000});
    J.d = (unsigned)t.pick<unsigned>({6, 8}); J.k = (unsigned)t.range(J.d, 200); J.f = (unsigned)t.range(8, 16); J.accel = (unsigned)t.range(1, 4);
    J.steps = (unsigned)t.range(1, 4); J.threads = (unsigned)t.pick<unsigned>({0, 1, 2, 3}); J.shrink = (unsigned)t.range(0, 1);
    J.split = t.flip() ? 1.0 : 0.75; J.level = (int)t.irange(1, 6); J.dictID = t.flip() ? 0 : (unsigned)t.range(1, 100000);
    J.content = gen::gen_content_sized(t, (size_t)t.range(8, 3000));
    c.note("%s samples=%u/%zuB cap=%zu k=%u d=%u f=%u steps=%u threads=%u split=%.2f", tname[J.trainer], ns, J.samples.size(), J.cap, J.k, J.d, J.f, J.steps, J.threads, J.split);

    // clean run: the reference result and the number of allocations
    std::vector<uint8_t> ref, got;
    arm(-1);
    size_t r0 = run(J, ref);
    long N = g_count;
    VF_CHECK(c, g_err.empty(), "clean run: %s", g_err.c_str());
    { std::lock_guard<std::mutex> g(g_mu); VF_CHECK(c, g_live.empty(), "clean run of %s left %zu blocks allocated", tname[J.trainer], g_live.size()); }
    bool ok0 = !ZDICT_isError(r0);
    if (ok0) ref.resize(r0);
    c.label(ok0 ? "clean_run_trains" : "clean_run_refuses");
    c.maxi("max_allocations_in_one_call", (unsigned long)N);
    bool threaded = (J.trainer == 3 || J.trainer == 4) && J.threads >= 2;
    unsigned faults = 0, errors = 0, survived = 0;
    // with worker threads the allocation order varies between runs: N is an estimate, indices beyond a run's count simply do not fire
    for (long k = 1; k <= N; k++) {
        arm(k);
        size_t r = run(J, got);
        long fired = g_failed;
        VF_CHECK(c, g_err.empty(), "%s with allocation %ld of %ld failing: %s", tname[J.trainer], k, N, g_err.c_str());
        { std::lock_guard<std::mutex> g(g_mu); if (!g_live.empty()) { size_t n = g_live.size(), b = 0; for (auto& kv : g_live) b += kv.second; c.fail("%s with allocation %ld of %ld failing (%s): %zu block(s), %zu bytes never freed", tname[J.trainer], k, N, ZDICT_isError(r) ? ZDICT_getErrorName(r) : "call succeeded", n, b); } }
        if (!fired) continue;
        faults++;
        if (ZDICT_isError(r)) errors++;
        else {
            // the failed allocation was survivable: the result must still be a usable dictionary of a permitted size
            survived++;
            VF_CHECK(c, r <= J.cap, "%s returned %zu for a capacity of %zu after a failed allocation", tname[J.trainer], r, J.cap);
            // (not necessarily the undisturbed bytes: e.g. ZDICT_countEStats skips a sample whose compression could not start)
            if (J.trainer != 7) {
                arm(-1);
                ZSTD_CDict* cd = ZSTD_createCDict(got.data(), r, 3); ZSTD_DDict* dd = ZSTD_createDDict(got.data(), r);
                bool usable = cd && dd;
                if (usable && !J.sizes.empty()) {
                    ZSTD_CCtx* cc = ZSTD_createCCtx(); ZSTD_DCtx* dc = ZSTD_createDCtx();
                    std::vector<uint8_t> z(ZSTD_compressBound(J.sizes[0])), back(J.sizes[0] + 1);
                    size_t zn = ZSTD_compress_usingCDict(cc, z.data(), z.size(), J.samples.data(), J.sizes[0], cd);
                    size_t bn = ZSTD_isError(zn) ? zn : ZSTD_decompress_usingDDict(dc, back.data(), back.size(), z.data(), zn, dd);
                    usable = !ZSTD_isError(bn) && bn == J.sizes[0] && !memcmp(back.data(), J.samples.data(), bn);
                    ZSTD_freeCCtx(cc); ZSTD_freeDCtx(dc);
                }
                ZSTD_freeCDict(cd); ZSTD_freeDDict(dd);
                VF_CHECK(c, usable, "%s reported success after allocation %ld failed but returned a dictionary the library cannot load / round-trip with", tname[J.trainer], k);
                { std::lock_guard<std::mutex> g(g_mu); VF_CHECK(c, g_live.empty(), "usability probe left blocks allocated"); }
            }
        }
        // memory is available again: the same call gives the undisturbed result
        if ((k % 4) == 1 || k == N) {
            arm(-1);
            size_t r2 = run(J, got);
            VF_CHECK(c, ZDICT_isError(r2) == !ok0, "%s after a failed attempt: %s, the undisturbed call %s", tname[J.trainer], ZDICT_isError(r2) ? ZDICT_getErrorName(r2) : "succeeds", ok0 ? "succeeds" : "fails");
            if (ok0 && !threaded) VF_CHECK(c, r2 == r0 && !memcmp(got.data(), ref.data(), r0), "%s after a failed attempt produced a different dictionary", tname[J.trainer]);
            { std::lock_guard<std::mutex> g(g_mu); VF_CHECK(c, g_live.empty(), "retry left blocks allocated"); }
        }
    }
    c.label("train_fault_points", faults); c.label("train_faults_reported_as_error", errors); c.label("train_faults_survived", survived);
    c.label(std::string("trainer:") + tname[J.trainer]);
    c.nontrivial = ok0 && faults >= 3;
}
