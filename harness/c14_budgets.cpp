// C14 - memory budgets hold: estimates suffice for static contexts, sizeof never under-reports, decoder window limit.
#include "stream_engine.hpp"
#include <mutex>
#include <unordered_map>

const char* vf_property_id() { return "C14"; }
static bool g_thorough = false;
static std::vector<uint8_t> g_golden;
static std::vector<uint8_t> slurp(const std::string& p) { std::vector<uint8_t> v; FILE* f = fopen(p.c_str(), "rb"); if (!f) return v; uint8_t b[4096]; size_t r; while ((r = fread(b, 1, sizeof b, f)) > 0) v.insert(v.end(), b, b + r); fclose(f); return v; }
void vf_setup() {
    const char* e = getenv("VERIF_TIER"); g_thorough = e && !strcmp(e, "thorough");
    const char* repo = getenv("VERIF_REPO"); g_golden = slurp(std::string(repo ? repo : "/repo") + "/tests/golden-dictionaries/http-dict-missing-symbols");
}
static const size_t CAP = 700ull << 20;

struct Count { std::mutex mu; std::unordered_map<void*, size_t> live; size_t cur = 0, peak = 0; };
static void* c_alloc(void* op, size_t n) { Count* k = (Count*)op; void* p = malloc(n ? n : 1); if (!p) return p; std::lock_guard<std::mutex> g(k->mu); k->live[p] = n; k->cur += n; if (k->cur > k->peak) k->peak = k->cur; return p; }
static void c_free(void* op, void* p) { if (!p) return; Count* k = (Count*)op; { std::lock_guard<std::mutex> g(k->mu); auto it = k->live.find(p); if (it != k->live.end()) { k->cur -= it->second; k->live.erase(it); } } free(p); }

static void roundtrip(vf::Ctx& c, const uint8_t* f, size_t n, const std::vector<uint8_t>& x, const std::vector<uint8_t>* dict, const char* what) {
    ZSTD_DCtx* d = ZSTD_createDCtx();
    ZSTD_DCtx_setParameter(d, ZSTD_d_windowLogMax, 31);
    std::vector<uint8_t> back(x.size() + 1);
    size_t r = dict ? ZSTD_decompress_usingDict(d, back.data(), back.size(), f, n, dict->data(), dict->size()) : ZSTD_decompressDCtx(d, back.data(), back.size(), f, n);
    ZSTD_freeDCtx(d);
    VF_CHECK(c, !ZSTD_isError(r) && r == x.size() && (x.empty() || !memcmp(back.data(), x.data(), x.size())), "%s: output of the static context does not round trip (%s)", what, ZSTD_isError(r) ? ZSTD_getErrorName(r) : "content");
}

static size_t stream_compress(ZSTD_CCtx* cc, const std::vector<uint8_t>& x, std::vector<uint8_t>& out, vf::Tape& t) {
    out.resize(ZSTD_compressBound(x.size()) + 1024);
    ZSTD_outBuffer ob = {out.data(), out.size(), 0};
    size_t pos = 0;
    size_t chunk = (size_t)t.pick<size_t>({1u << 20, 4096, 100000, 131072, 17});
    while (pos < x.size()) {
        size_t n = std::min(chunk, x.size() - pos);
        ZSTD_inBuffer in = {x.data() + pos, n, 0};
        while (in.pos < in.size) { size_t r = ZSTD_compressStream2(cc, &ob, &in, t.chance(10) ? ZSTD_e_flush : ZSTD_e_continue); if (ZSTD_isError(r)) return r; }
        pos += n;
    }
    ZSTD_inBuffer in = {nullptr, 0, 0};
    for (unsigned g = 0; g < 1000000; g++) { size_t r = ZSTD_compressStream2(cc, &ob, &in, ZSTD_e_end); if (ZSTD_isError(r)) return r; if (r == 0) break; }
    return ob.pos;
}

void vf_case(vf::Ctx& c) {
    vf::Tape& t = c.t;
    int part = (int)t.weighted({3, 3, 4, 2, 3, 3});
    int maxLevel = g_thorough ? 22 : 19;
    if (part == 0 || part == 1) {
        // ---- estimateCCtxSize(L) / estimateCStreamSize(L): any level l <= L, any input ----
        bool stream = part == 1;
        int L = (int)t.irange(-7, maxLevel);
        if (L == 0) L = 3;   // level 0 means 'default level': avoid the ambiguity of comparing it with other levels
        size_t est = stream ? ZSTD_estimateCStreamSize(L) : ZSTD_estimateCCtxSize(L);
        VF_CHECK(c, !ZSTD_isError(est), "estimate(%d) is an error", L);
        if (est > CAP) c.discard("memcap");
        vf::Buf ws(est);   // exactly the estimate, exact-size heap block (nothing outside may be touched)
        ZSTD_CCtx* cc = stream ? ZSTD_initStaticCStream(ws.p, est) : ZSTD_initStaticCCtx(ws.p, est);
        VF_CHECK(c, cc != nullptr, "%s(workspace of exactly estimate(%d)=%zu) returned NULL", stream ? "initStaticCStream" : "initStaticCCtx", L, est);
        // mostly a few operations; sometimes a long life of small operations on the one static context (a budget must not wear out)
        bool longlife = t.chance(12);
        unsigned nops = longlife ? (unsigned)t.range(130, 400) : (unsigned)t.range(1, 4);
        if (longlife) c.label("static_context_long_life");
        for (unsigned i = 0; i < nops; i++) {
            int l = (int)t.irange(-7 < L ? -7 : L, L);
            if (l > L) l = L;
            if (l == 0) l = (L >= 1) ? 1 : L;
            gen::ContentInfo ci;
            std::vector<uint8_t> x = longlife ? gen::gen_content_sized(t, (size_t)t.range(0, 3000), &ci) : gen::gen_content(t, (l >= 16) ? (128u << 10) : (600u << 10), &ci);
            std::vector<uint8_t> out(ZSTD_compressBound(x.size()) + 64);
            size_t n;
            if (!stream) n = ZSTD_compressCCtx(cc, out.data(), out.size(), x.data(), x.size(), l);
            else {
                ZSTD_CCtx_reset(cc, ZSTD_reset_session_and_parameters);
                ZSTD_CCtx_setParameter(cc, ZSTD_c_compressionLevel, l);
                n = stream_compress(cc, x, out, t);
            }
            VF_CHECK(c, !ZSTD_isError(n), "static %s sized by estimate(level %d)=%zu failed at level %d on %zu bytes (operation %u): %s", stream ? "CStream" : "CCtx", L, est, l, x.size(), i, ZSTD_getErrorName(n));
            roundtrip(c, out.data(), n, x, nullptr, "estimate(level)");
            if (i < 4) c.note("%s L=%d l=%d n=%zu; ", stream ? "CStream" : "CCtx", L, l, x.size());
        }
        c.label(stream ? "part:estimateCStreamSize(level)" : "part:estimateCCtxSize(level)");
        c.nontrivial = true;
        return;
    }
    if (part == 2) {
        // ---- estimate*_usingCCtxParams(params): level + overrides, then exactly those parameters ----
        bool stream = t.flip();
        gen::ParamSet ps = gen::gen_params(t, g_thorough);
        // srcSizeHint is the caller's promise about the input size; an estimate made under a false promise covers nothing, so it is not generated here
        { std::vector<gen::PV> kk; for (auto& x : ps.v) if (x.p != ZSTD_c_format && x.p != ZSTD_c_srcSizeHint) kk.push_back(x); ps.v = kk; }
        ZSTD_CCtx_params* cp = ZSTD_createCCtxParams();
        struct G { ZSTD_CCtx_params* p; ~G() { ZSTD_freeCCtxParams(p); } } g{cp};
        std::vector<gen::PV> kept;
        for (auto& pv : ps.v) if (!ZSTD_isError(ZSTD_CCtxParams_setParameter(cp, pv.p, pv.v))) kept.push_back(pv);
        ps.v = kept;
        size_t est = stream ? ZSTD_estimateCStreamSize_usingCCtxParams(cp) : ZSTD_estimateCCtxSize_usingCCtxParams(cp);
        VF_CHECK(c, !ZSTD_isError(est), "estimate_usingCCtxParams(%s) is an error: %s", ps.str().c_str(), ZSTD_getErrorName(est));
        if (est > CAP) c.discard("memcap");
        vf::Buf ws(est);
        ZSTD_CCtx* cc = stream ? ZSTD_initStaticCStream(ws.p, est) : ZSTD_initStaticCCtx(ws.p, est);
        VF_CHECK(c, cc != nullptr, "initStatic(workspace of exactly the estimate %zu for %s) returned NULL", est, ps.str().c_str());
        int lvl = ps.get(ZSTD_c_compressionLevel, 3), strat = ps.get(ZSTD_c_strategy, 0);
        unsigned nops = (unsigned)t.range(1, 3);
        for (unsigned i = 0; i < nops; i++) {
            size_t r = ZSTD_CCtx_reset(cc, ZSTD_reset_session_and_parameters);
            r = ZSTD_CCtx_setParametersUsingCCtxParams(cc, cp);
            VF_CHECK(c, !ZSTD_isError(r), "setParametersUsingCCtxParams: %s", ZSTD_getErrorName(r));
            gen::ContentInfo ci;
            std::vector<uint8_t> x = gen::gen_content(t, (lvl >= 16 || strat >= 7) ? (128u << 10) : (600u << 10), &ci);
            std::vector<uint8_t> out(ZSTD_compressBound(x.size()) + 64);
            size_t n = stream ? stream_compress(cc, x, out, t) : ZSTD_compress2(cc, out.data(), out.size(), x.data(), x.size());
            VF_CHECK(c, !ZSTD_isError(n), "static %s sized by estimate_usingCCtxParams(%s)=%zu failed on %zu bytes (operation %u): %s", stream ? "CStream" : "CCtx", ps.str().c_str(), est, x.size(), i, ZSTD_getErrorName(n));
            roundtrip(c, out.data(), n, x, nullptr, "estimate_usingCCtxParams");
        }
        c.note("usingCCtxParams stream=%d %s est=%zu", (int)stream, ps.str().c_str(), est);
        c.label("part:estimate_usingCCtxParams");
        if (ps.get(ZSTD_c_enableLongDistanceMatching, 0) == 1) c.label("with_ldm");
        if (ps.has(ZSTD_c_useRowMatchFinder)) c.label("with_rowmf_override");
        c.nontrivial = !ps.v.empty();
        return;
    }
    if (part == 3) {
        // ---- estimate*_usingCParams(c): exactly c ----
        bool stream = t.flip();
        ZSTD_compressionParameters cp;
        cp.windowLog = (unsigned)t.range(10, g_thorough ? 27 : 23);
        cp.chainLog = (unsigned)t.range(6, g_thorough ? 26 : 22);
        cp.hashLog = (unsigned)t.range(6, g_thorough ? 26 : 22);
        cp.searchLog = (unsigned)t.range(1, 9);
        cp.minMatch = (unsigned)t.range(3, 7);
        cp.targetLength = (unsigned)t.range(0, 999);
        cp.strategy = (ZSTD_strategy)t.range(1, 9);
        if (ZSTD_isError(ZSTD_checkCParams(cp))) c.discard("cparams_invalid");
        size_t est = stream ? ZSTD_estimateCStreamSize_usingCParams(cp) : ZSTD_estimateCCtxSize_usingCParams(cp);
        VF_CHECK(c, !ZSTD_isError(est), "estimate_usingCParams error");
        if (est > CAP) c.discard("memcap");
        vf::Buf ws(est);
        ZSTD_CCtx* cc = stream ? ZSTD_initStaticCStream(ws.p, est) : ZSTD_initStaticCCtx(ws.p, est);
        VF_CHECK(c, cc != nullptr, "initStatic(estimate_usingCParams=%zu) returned NULL", est);
        std::vector<uint8_t> x = gen::gen_content(t, cp.strategy >= 7 ? (128u << 10) : (600u << 10));
        std::vector<uint8_t> out(ZSTD_compressBound(x.size()) + 64);
        size_t n;
        ZSTD_CCtx_setParameter(cc, ZSTD_c_windowLog, (int)cp.windowLog); ZSTD_CCtx_setParameter(cc, ZSTD_c_chainLog, (int)cp.chainLog); ZSTD_CCtx_setParameter(cc, ZSTD_c_hashLog, (int)cp.hashLog);
        ZSTD_CCtx_setParameter(cc, ZSTD_c_searchLog, (int)cp.searchLog); ZSTD_CCtx_setParameter(cc, ZSTD_c_minMatch, (int)cp.minMatch); ZSTD_CCtx_setParameter(cc, ZSTD_c_targetLength, (int)cp.targetLength); ZSTD_CCtx_setParameter(cc, ZSTD_c_strategy, (int)cp.strategy);
        n = stream ? stream_compress(cc, x, out, t) : ZSTD_compress2(cc, out.data(), out.size(), x.data(), x.size());
        VF_CHECK(c, !ZSTD_isError(n), "static %s sized by estimate_usingCParams{w%u c%u h%u s%u m%u t%u strat%d}=%zu failed on %zu bytes: %s", stream ? "CStream" : "CCtx", cp.windowLog, cp.chainLog, cp.hashLog, cp.searchLog, cp.minMatch, cp.targetLength, (int)cp.strategy, est, x.size(), ZSTD_getErrorName(n));
        roundtrip(c, out.data(), n, x, nullptr, "estimate_usingCParams");
        c.note("usingCParams stream=%d {w%u c%u h%u s%u m%u t%u strat%d} est=%zu n=%zu", (int)stream, cp.windowLog, cp.chainLog, cp.hashLog, cp.searchLog, cp.minMatch, cp.targetLength, (int)cp.strategy, est, x.size());
        c.label("part:estimate_usingCParams");
        c.nontrivial = true;
        return;
    }
    if (part == 4) {
        // ---- sizeof_* never under-reports (counting allocator), dictionaries, static CDict/DDict ----
        Count K;
        ZSTD_customMem cm = {c_alloc, c_free, &K};
        int which = (int)t.range(0, 3);
        if (which == 0) {
            ZSTD_CCtx* cc = ZSTD_createCCtx_advanced(cm);
            gen::ParamSet ps = gen::gen_params(t, false, 5);
            if (gen::estimate_mem(ps) > (400ull << 20)) { ZSTD_freeCCtx(cc); c.discard("memcap"); }
            gen::apply_params(cc, ps);
            bool mt = t.chance(25);
            if (mt) ZSTD_CCtx_setParameter(cc, ZSTD_c_nbWorkers, (int)t.range(1, 3));
            int lvl = ps.get(ZSTD_c_compressionLevel, 3), strat = ps.get(ZSTD_c_strategy, 0);
            std::vector<uint8_t> x = gen::gen_content(t, (lvl >= 16 || strat >= 7) ? (64u << 10) : (mt ? (2u << 20) : (400u << 10)));
            std::vector<uint8_t> out;
            size_t n = stream_compress(cc, x, out, t);
            if (!ZSTD_isError(n)) {
                size_t so = ZSTD_sizeof_CCtx(cc);
                VF_CHECK(c, so >= K.cur, "ZSTD_sizeof_CCtx reports %zu bytes but the context holds %zu bytes from the allocator (%s mt=%d)", so, K.cur, ps.str().c_str(), (int)mt);
                c.maxi("sizeof_CCtx_slack_bytes", so - K.cur);
            }
            ZSTD_freeCCtx(cc);
            VF_CHECK(c, K.cur == 0, "CCtx freed but %zu bytes remain allocated", K.cur);
            c.note("sizeof_CCtx %s mt=%d", ps.str().c_str(), (int)mt);
        } else if (which == 1) {
            ZSTD_DCtx* d = ZSTD_createDCtx_advanced(cm);
            bool multi = t.flip();
            std::vector<ZSTD_DDict*> dds;
            if (multi) {
                ZSTD_DCtx_setParameter(d, ZSTD_d_refMultipleDDicts, ZSTD_rmd_refMultipleDDicts);
                unsigned k = (unsigned)t.range(1, 40);
                for (unsigned i = 0; i < k; i++) { std::vector<uint8_t> dv = g_golden; uint32_t id = 500 + i * 31; memcpy(&dv[4], &id, 4); ZSTD_DDict* dd = ZSTD_createDDict(dv.data(), dv.size()); dds.push_back(dd); ZSTD_DCtx_refDDict(d, dd); }
            }
            if (t.flip()) ZSTD_DCtx_loadDictionary(d, g_golden.data(), g_golden.size());
            // decode a streamed frame so that the stream buffers exist
            std::vector<uint8_t> x = gen::gen_content(t, 300u << 10), f(ZSTD_compressBound(x.size()) + 64);
            ZSTD_CCtx* cc = ZSTD_createCCtx(); ZSTD_CCtx_setParameter(cc, ZSTD_c_windowLog, (int)t.range(10, 22));
            std::vector<uint8_t> tmp; size_t n = stream_compress(cc, x, tmp, t); ZSTD_freeCCtx(cc);
            std::vector<uint8_t> back(x.size() + 1);
            ZSTD_inBuffer in = {tmp.data(), n, 0}; ZSTD_outBuffer ob = {back.data(), back.size(), 0};
            for (unsigned g = 0; g < 100000; g++) { size_t r = ZSTD_decompressStream(d, &ob, &in); if (ZSTD_isError(r) || r == 0) break; }
            size_t so = ZSTD_sizeof_DCtx(d);
            VF_CHECK(c, so >= K.cur, "ZSTD_sizeof_DCtx reports %zu bytes but the context holds %zu bytes from the allocator (refMultipleDDicts=%d, %zu DDicts referenced)", so, K.cur, (int)multi, dds.size());
            ZSTD_freeDCtx(d);
            for (auto dd : dds) ZSTD_freeDDict(dd);
            VF_CHECK(c, K.cur == 0, "DCtx freed but %zu bytes remain allocated", K.cur);
            c.note("sizeof_DCtx multi=%d", (int)multi);
            if (multi) c.label("sizeof_DCtx_with_ddict_table");
        } else if (which == 2) {
            // CDict: sizeof and static
            std::vector<uint8_t> dict = t.flip() ? g_golden : gen::gen_content_sized(t, (size_t)t.range(8, 100000));
            int lvl = (int)t.irange(1, 19);
            ZSTD_compressionParameters cp = ZSTD_getCParams(lvl, 0, dict.size());
            ZSTD_dictLoadMethod_e lm = t.flip() ? ZSTD_dlm_byCopy : ZSTD_dlm_byRef;
            ZSTD_CDict* cd = ZSTD_createCDict_advanced(dict.data(), dict.size(), lm, ZSTD_dct_auto, cp, cm);
            if (cd) {
                size_t so = ZSTD_sizeof_CDict(cd);
                VF_CHECK(c, so >= K.cur, "ZSTD_sizeof_CDict reports %zu, holds %zu", so, K.cur);
                ZSTD_freeCDict(cd);
            }
            size_t est = ZSTD_estimateCDictSize_advanced(dict.size(), cp, lm);
            vf::Buf ws(est);
            const ZSTD_CDict* scd = ZSTD_initStaticCDict(ws.p, est, dict.data(), dict.size(), lm, ZSTD_dct_auto, cp);
            VF_CHECK(c, scd != nullptr, "initStaticCDict(estimateCDictSize_advanced(%zu bytes, level %d, %s)=%zu) returned NULL", dict.size(), lvl, lm == ZSTD_dlm_byCopy ? "byCopy" : "byRef", est);
            std::vector<uint8_t> x = gen::gen_content(t, 100u << 10), out(ZSTD_compressBound(x.size()) + 64);
            ZSTD_CCtx* cc = ZSTD_createCCtx();
            size_t n = ZSTD_compress_usingCDict(cc, out.data(), out.size(), x.data(), x.size(), scd);
            ZSTD_freeCCtx(cc);
            VF_CHECK(c, !ZSTD_isError(n), "compress_usingCDict(static CDict): %s", ZSTD_getErrorName(n));
            roundtrip(c, out.data(), n, x, &dict, "static CDict");
            c.note("CDict %zuB level %d", dict.size(), lvl);
        } else {
            std::vector<uint8_t> dict = t.flip() ? g_golden : gen::gen_content_sized(t, (size_t)t.range(8, 100000));
            ZSTD_dictLoadMethod_e lm = t.flip() ? ZSTD_dlm_byCopy : ZSTD_dlm_byRef;
            ZSTD_DDict* dd = ZSTD_createDDict_advanced(dict.data(), dict.size(), lm, ZSTD_dct_auto, cm);
            if (dd) { size_t so = ZSTD_sizeof_DDict(dd); VF_CHECK(c, so >= K.cur, "ZSTD_sizeof_DDict reports %zu, holds %zu", so, K.cur); ZSTD_freeDDict(dd); }
            size_t est = ZSTD_estimateDDictSize(dict.size(), lm);
            vf::Buf ws(est);
            const ZSTD_DDict* sdd = ZSTD_initStaticDDict(ws.p, est, dict.data(), dict.size(), lm, ZSTD_dct_auto);
            VF_CHECK(c, sdd != nullptr, "initStaticDDict(estimateDDictSize(%zu, %s)=%zu) returned NULL", dict.size(), lm == ZSTD_dlm_byCopy ? "byCopy" : "byRef", est);
            std::vector<uint8_t> x = gen::gen_content(t, 100u << 10), out(ZSTD_compressBound(x.size()) + 64);
            ZSTD_CCtx* cc = ZSTD_createCCtx();
            size_t n = ZSTD_compress_usingDict(cc, out.data(), out.size(), x.data(), x.size(), dict.data(), dict.size(), 3);
            ZSTD_freeCCtx(cc);
            ZSTD_DCtx* d = ZSTD_createDCtx(); std::vector<uint8_t> back(x.size() + 1);
            size_t r = ZSTD_decompress_usingDDict(d, back.data(), back.size(), out.data(), n, sdd);
            ZSTD_freeDCtx(d);
            VF_CHECK(c, !ZSTD_isError(r) && r == x.size() && (x.empty() || !memcmp(back.data(), x.data(), r)), "decode with a static DDict: %s", ZSTD_isError(r) ? ZSTD_getErrorName(r) : "content");
            c.note("DDict %zuB", dict.size());
        }
        c.label("part:sizeof_and_static_dicts");
        c.nontrivial = true;
        return;
    }
    // ---- decoder window limit and estimateDStreamSize ----
    {
        int wl = (int)t.range(10, g_thorough ? 25 : 23);
        std::vector<uint8_t> x = gen::gen_content(t, 1u << 20);
        ZSTD_CCtx* cc = ZSTD_createCCtx();
        ZSTD_CCtx_setParameter(cc, ZSTD_c_windowLog, wl);
        if (t.flip()) ZSTD_CCtx_setParameter(cc, ZSTD_c_checksumFlag, 1);
        std::vector<uint8_t> f; size_t n = stream_compress(cc, x, f, t); ZSTD_freeCCtx(cc);
        VF_CHECK(c, !ZSTD_isError(n), "setup compress");
        fw::Frame fr = fw::walk(f.data(), n);
        VF_CHECK(c, fr.ok, "walker");
        unsigned long long window = fr.window_size;
        int how = (int)t.range(0, 2);
        int W = (int)t.range(10, 25);
        unsigned long long limit = 1ull << W;
        if (how == 2) limit = (unsigned long long)t.range(1024, 1u << 25);
        // (a) heap DCtx with a window limit: refusal iff the frame's window exceeds it; allocation bounded by the estimate
        Count K; ZSTD_customMem cm = {c_alloc, c_free, &K};
        ZSTD_DCtx* d = ZSTD_createDCtx_advanced(cm);
        size_t base = K.cur;
        size_t r = (how == 2) ? ZSTD_DCtx_setMaxWindowSize(d, (size_t)limit) : ZSTD_DCtx_setParameter(d, ZSTD_d_windowLogMax, W);
        VF_CHECK(c, !ZSTD_isError(r), "setting the window limit failed: %s", ZSTD_getErrorName(r));
        std::vector<uint8_t> back(x.size() + 1);
        ZSTD_inBuffer in = {f.data(), n, 0};
        size_t rr = 1; size_t produced = 0;
        vf::Buf ob(4096);   // small output: forces the internal window buffer
        for (unsigned g = 0; g < 10000000 && rr != 0; g++) {
            ZSTD_outBuffer o = {ob.p, ob.n, 0};
            rr = ZSTD_decompressStream(d, &o, &in);
            if (ZSTD_isError(rr)) break;
            if (o.pos && produced + o.pos <= back.size()) memcpy(back.data() + produced, ob.p, o.pos);
            produced += o.pos;
        }
        bool single = fr.single_segment;
        if (window > limit) {
            VF_CHECK(c, ZSTD_isError(rr) && ZSTD_getErrorCode(rr) == ZSTD_error_frameParameter_windowTooLarge, "frame window %llu exceeds the decoder's limit %llu but decoding %s", window, limit, ZSTD_isError(rr) ? ZSTD_getErrorName(rr) : "succeeded");
            c.label("window_over_limit_refused");
        } else {
            VF_CHECK(c, !ZSTD_isError(rr), "frame window %llu is within the limit %llu but decoding failed: %s", window, limit, ZSTD_getErrorName(rr));
            VF_CHECK(c, produced == x.size() && (x.empty() || !memcmp(back.data(), x.data(), x.size())), "decoded content differs");
            size_t bound = ZSTD_estimateDStreamSize((size_t)std::max<unsigned long long>(window, 1024));
            size_t held = K.peak - base;
            VF_CHECK(c, held + base <= bound + 64, "streaming decoder with window %llu allocated %zu bytes (+%zu context), more than estimateDStreamSize(window)=%zu", window, held, base, bound);
            c.maxi("dstream_alloc_vs_estimate_slack", bound > held + base ? bound - held - base : 0);
            c.label("window_within_limit_ok");
        }
        ZSTD_freeDCtx(d);
        (void)single;
        // (a2) the limit is judged for EVERY frame of a long-lived decoder, whatever buffers earlier frames left behind and
        //      however the limit moved in between (heap context; normal and stable-output mode)
        {
            ZSTD_DCtx* ld = ZSTD_createDCtx();
            bool stableOut = t.chance(30);
            if (stableOut) ZSTD_DCtx_setParameter(ld, ZSTD_d_stableOutBuffer, 1);
            unsigned nfr = (unsigned)t.range(2, 4);
            for (unsigned fi = 0; fi < nfr; fi++) {
                int wli = (int)t.range(10, 23);
                std::vector<uint8_t> xi = gen::gen_content_sized(t, (size_t)t.range(1000, 300000)), fi_bytes;
                ZSTD_CCtx* c3 = ZSTD_createCCtx(); ZSTD_CCtx_setParameter(c3, ZSTD_c_windowLog, wli); ZSTD_CCtx_setParameter(c3, ZSTD_c_checksumFlag, 1);
                size_t n3 = stream_compress(c3, xi, fi_bytes, t); ZSTD_freeCCtx(c3);
                VF_CHECK(c, !ZSTD_isError(n3), "setup compress");
                fw::Frame f3 = fw::walk(fi_bytes.data(), n3);
                VF_CHECK(c, f3.ok, "walker");
                int Wi = (int)t.range(10, 25); unsigned long long lim = 1ull << Wi;
                size_t sr = t.flip() ? ZSTD_DCtx_setParameter(ld, ZSTD_d_windowLogMax, Wi) : ZSTD_DCtx_setMaxWindowSize(ld, (size_t)lim);
                VF_CHECK(c, !ZSTD_isError(sr), "changing the window limit between frames failed: %s", ZSTD_getErrorName(sr));
                vf::Buf so(stableOut ? xi.size() + 64 : 4096);
                ZSTD_inBuffer in4 = {fi_bytes.data(), n3, 0}; size_t r4 = 1, prod = 0, spos = 0; bool same = true;
                for (unsigned g = 0; g < 10000000 && r4 != 0; g++) {
                    ZSTD_outBuffer o = {so.p, so.n, stableOut ? spos : 0};
                    size_t o0 = o.pos;
                    r4 = ZSTD_decompressStream(ld, &o, &in4);
                    if (ZSTD_isError(r4)) break;
                    size_t got = o.pos - o0;
                    if (got && prod + got <= xi.size() && memcmp(xi.data() + prod, so.p + o0, got)) same = false;
                    prod += got; if (stableOut) spos = o.pos;
                }
                if (f3.window_size > lim) {
                    VF_CHECK(c, ZSTD_isError(r4) && ZSTD_getErrorCode(r4) == ZSTD_error_frameParameter_windowTooLarge, "frame %u on a long-lived decoder%s: window %llu exceeds the limit %llu now in force but decoding %s", fi, stableOut ? " (stable output)" : "", (unsigned long long)f3.window_size, lim, ZSTD_isError(r4) ? ZSTD_getErrorName(r4) : "succeeded");
                    c.label("long_lived_decoder_refusals");
                    ZSTD_DCtx_reset(ld, ZSTD_reset_session_only);
                } else {
                    VF_CHECK(c, !ZSTD_isError(r4) && prod == xi.size() && same, "frame %u on a long-lived decoder: window %llu within the limit %llu but %s", fi, (unsigned long long)f3.window_size, lim, ZSTD_isError(r4) ? ZSTD_getErrorName(r4) : "content differs");
                    c.label("long_lived_decoder_accepts");
                }
            }
            ZSTD_freeDCtx(ld);
        }
        // (b) static DStream sized by estimateDStreamSize / _fromFrame
        size_t est = t.flip() ? ZSTD_estimateDStreamSize_fromFrame(f.data(), n) : ZSTD_estimateDStreamSize((size_t)window);
        VF_CHECK(c, !ZSTD_isError(est), "estimateDStreamSize error");
        if (est <= CAP) {
            vf::Buf ws(est);
            ZSTD_DStream* sd = ZSTD_initStaticDStream(ws.p, est);
            VF_CHECK(c, sd != nullptr, "initStaticDStream(estimate=%zu) returned NULL", est);
            ZSTD_DCtx_setParameter(sd, ZSTD_d_windowLogMax, 31);
            ZSTD_inBuffer in2 = {f.data(), n, 0};
            size_t r2 = 1, prod2 = 0; size_t oc = (size_t)t.pick<size_t>({4096, 1, 131072, 100});
            vf::Buf ob2(oc);
            for (unsigned g = 0; g < 100000000 && r2 != 0; g++) {
                ZSTD_outBuffer o = {ob2.p, ob2.n, 0};
                r2 = ZSTD_decompressStream(sd, &o, &in2);
                if (ZSTD_isError(r2)) break;
                if (o.pos && prod2 + o.pos <= x.size() && memcmp(x.data() + prod2, ob2.p, o.pos)) c.fail("static DStream output differs at %zu", prod2);
                prod2 += o.pos;
            }
            VF_CHECK(c, !ZSTD_isError(r2), "static DStream sized by estimateDStreamSize(window %llu)=%zu failed: %s", window, est, ZSTD_getErrorName(r2));
            VF_CHECK(c, prod2 == x.size(), "static DStream produced %zu of %zu", prod2, x.size());
            // a frame with a larger window must be refused by that same static context, not overrun it
            if (wl < 24) {
                ZSTD_CCtx* c2 = ZSTD_createCCtx(); ZSTD_CCtx_setParameter(c2, ZSTD_c_windowLog, wl + 1 + (int)t.range(0, 2));
                std::vector<uint8_t> x2 = gen::gen_content_sized(t, (size_t)4 << wl > (4u << 20) ? (4u << 20) : (size_t)4 << wl), f2;
                size_t n2 = stream_compress(c2, x2, f2, t); ZSTD_freeCCtx(c2);
                ZSTD_DCtx_reset(sd, ZSTD_reset_session_only);
                ZSTD_inBuffer in3 = {f2.data(), n2, 0};
                size_t r3 = 1;
                for (unsigned g = 0; g < 100000000 && r3 != 0; g++) { ZSTD_outBuffer o = {ob2.p, ob2.n, 0}; r3 = ZSTD_decompressStream(sd, &o, &in3); if (ZSTD_isError(r3)) break; }
                if (ZSTD_isError(r3)) c.label("static_dstream_refused_larger_window"); else c.label("static_dstream_decoded_larger_window_within_budget");
            }
        }
        c.note("dstream wl=%d window=%llu limit=%llu how=%d n=%zu", wl, window, limit, how, x.size());
        c.label("part:decoder_window");
        c.nontrivial = x.size() > window / 2;
    }
}
