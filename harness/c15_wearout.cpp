// C15 - correctness does not wear out: index rebasing, ring wrap, long context life.
// The code under test is linked twice: the normal build (reference: fresh context per frame) and the same sources
// built with ZSTD_WINDOW_OVERFLOW_CORRECT_FREQUENTLY=1 (symbols prefixed wocf_), where the 32-bit index correction
// fires after a few KiB and then at growing intervals. One long-lived wocf context compresses 2..40 frames.
#include "stream_engine.hpp"
#include "conformance.hpp"

const char* vf_property_id() { return "C15"; }
static bool g_thorough = false;
void vf_setup() { const char* e = getenv("VERIF_TIER"); g_thorough = e && !strcmp(e, "thorough"); }

extern "C" {
void* wocf_ZSTD_createCCtx(void); size_t wocf_ZSTD_freeCCtx(void*);
size_t wocf_ZSTD_CCtx_setParameter(void*, int, int); size_t wocf_ZSTD_CCtx_reset(void*, int);
size_t wocf_ZSTD_compressStream2(void*, ZSTD_outBuffer*, ZSTD_inBuffer*, int);
size_t wocf_ZSTD_CCtx_loadDictionary(void*, const void*, size_t); size_t wocf_ZSTD_CCtx_refPrefix(void*, const void*, size_t);
unsigned wocf_ZSTD_isError(size_t); const char* wocf_ZSTD_getErrorName(size_t);
void* wocf_ZSTD_createDCtx(void); size_t wocf_ZSTD_freeDCtx(void*);
size_t wocf_ZSTD_decompressStream(void*, ZSTD_outBuffer*, ZSTD_inBuffer*);
size_t wocf_ZSTD_DCtx_reset(void*, int); size_t wocf_ZSTD_DCtx_loadDictionary(void*, const void*, size_t); size_t wocf_ZSTD_DCtx_setParameter(void*, int, int);
extern unsigned long long wocf_ZSTD_verif_probe[16];
}

struct Api {
    void* (*create)(void); size_t (*freec)(void*); size_t (*setp)(void*, int, int); size_t (*reset)(void*, int);
    size_t (*cs2)(void*, ZSTD_outBuffer*, ZSTD_inBuffer*, int); size_t (*loadDict)(void*, const void*, size_t); size_t (*refPrefix)(void*, const void*, size_t); unsigned (*isErr)(size_t); const char* (*errName)(size_t);
};
static size_t n_setp(void* c, int p, int v) { return ZSTD_CCtx_setParameter((ZSTD_CCtx*)c, (ZSTD_cParameter)p, v); }
static size_t n_reset(void* c, int r) { return ZSTD_CCtx_reset((ZSTD_CCtx*)c, (ZSTD_ResetDirective)r); }
static size_t n_cs2(void* c, ZSTD_outBuffer* o, ZSTD_inBuffer* i, int e) { return ZSTD_compressStream2((ZSTD_CCtx*)c, o, i, (ZSTD_EndDirective)e); }
static const Api NORMAL = {(void* (*)())ZSTD_createCCtx, (size_t (*)(void*))ZSTD_freeCCtx, n_setp, n_reset, n_cs2, (size_t (*)(void*, const void*, size_t))ZSTD_CCtx_loadDictionary, (size_t (*)(void*, const void*, size_t))ZSTD_CCtx_refPrefix, ZSTD_isError, ZSTD_getErrorName};
static const Api WOCF = {wocf_ZSTD_createCCtx, wocf_ZSTD_freeCCtx, wocf_ZSTD_CCtx_setParameter, wocf_ZSTD_CCtx_reset, wocf_ZSTD_compressStream2, wocf_ZSTD_CCtx_loadDictionary, wocf_ZSTD_CCtx_refPrefix, wocf_ZSTD_isError, wocf_ZSTD_getErrorName};

struct FrameSpec { gen::ParamSet ps; std::vector<uint8_t> x, dict; bool asPrefix = false; std::vector<std::pair<size_t, int>> steps; };

// the same call sequence on a given build/context; returns false on a library error
static bool run_frame(const Api& A, void* cctx, const FrameSpec& F, std::vector<uint8_t>& out, std::string* err) {
    out.clear();
    size_t r = A.reset(cctx, ZSTD_reset_session_and_parameters);
    if (A.isErr(r)) { *err = A.errName(r); return false; }
    for (auto& pv : F.ps.v) { r = A.setp(cctx, (int)pv.p, pv.v); if (A.isErr(r)) { *err = std::string(pv.name) + ": " + A.errName(r); return false; } }
    if (!F.dict.empty()) { r = F.asPrefix ? A.refPrefix(cctx, F.dict.data(), F.dict.size()) : A.loadDict(cctx, F.dict.data(), F.dict.size()); if (A.isErr(r)) { *err = std::string("dict: ") + A.errName(r); return false; } }
    std::vector<uint8_t> ob(ZSTD_compressBound(F.x.size()) + 1024 + 64 * F.steps.size());
    ZSTD_outBuffer o = {ob.data(), ob.size(), 0};
    size_t pos = 0;
    for (size_t si = 0; si <= F.steps.size(); si++) {
        bool last = si == F.steps.size();
        size_t len = last ? F.x.size() - pos : std::min(F.steps[si].first, F.x.size() - pos);
        int dir = last ? ZSTD_e_end : F.steps[si].second;
        ZSTD_inBuffer in = {F.x.data() + pos, len, 0};
        for (unsigned g = 0; g < 1000000; g++) {
            r = A.cs2(cctx, &o, &in, dir);
            if (A.isErr(r)) { *err = A.errName(r); return false; }
            if (dir == ZSTD_e_continue ? in.pos == in.size : (r == 0 && in.pos == in.size)) break;
        }
        pos += len;
    }
    out.assign(ob.data(), ob.data() + o.pos);
    return true;
}

void vf_case(vf::Ctx& c) {
    vf::Tape& t = c.t;
    void* longlived = WOCF.create();
    struct G { void* p; ~G() { WOCF.freec(p); } } g{longlived};
    // decoder side of the property: ONE long-lived streaming decoder takes every frame of the life through its internal
    // ring buffer (small output chunks), which wraps many times on frames longer than the window
    ZSTD_DCtx* ldctx = ZSTD_createDCtx();
    struct GDX { ZSTD_DCtx* d; ~GDX() { ZSTD_freeDCtx(d); } } gdx{ldctx};
    ZSTD_DCtx_setParameter(ldctx, ZSTD_d_windowLogMax, 31);
    unsigned nframes = (unsigned)t.range(2, g_thorough ? 40 : 14);
    unsigned long long corr0 = wocf_ZSTD_verif_probe[0], inval0 = wocf_ZSTD_verif_probe[1];
    unsigned long long total = 0;
    unsigned crossed = 0;
    bool sticky_family = t.chance(60);   // most lives keep one table geometry so that indices are NOT reset between frames
    gen::ParamSet family;
    for (unsigned fi = 0; fi < nframes; fi++) {
        FrameSpec F;
        if (fi == 0 || !sticky_family) {
            F.ps = gen::gen_params(t, false, 5);
            std::vector<gen::PV> kk; for (auto& q : F.ps.v) if (q.p != ZSTD_c_format && q.p != ZSTD_c_windowLog) kk.push_back(q); F.ps.v = kk;
            // windows from 1 KiB: the correction interval scales with the window and the cycle
            F.ps.v.push_back({ZSTD_c_windowLog, (int)t.range(10, t.chance(70) ? 14 : 19), "windowLog"});
            if (!F.ps.has(ZSTD_c_chainLog) && t.chance(50)) F.ps.v.push_back({ZSTD_c_chainLog, (int)t.range(6, 12), "chainLog"});
            if (!F.ps.has(ZSTD_c_hashLog) && t.chance(50)) F.ps.v.push_back({ZSTD_c_hashLog, (int)t.range(6, 12), "hashLog"});
            // a third of the lives run the long-distance matcher (its own window, hash table and dictionary end survive in the context)
            if (!F.ps.has(ZSTD_c_enableLongDistanceMatching) && t.chance(35)) {
                F.ps.v.push_back({ZSTD_c_enableLongDistanceMatching, 1, "ldm"});
                if (t.flip()) F.ps.v.push_back({ZSTD_c_ldmMinMatch, (int)t.range(4, 64), "ldmMinMatch"});
                if (t.flip()) F.ps.v.push_back({ZSTD_c_ldmHashLog, (int)t.range(6, 12), "ldmHashLog"});
                if (t.flip()) F.ps.v.push_back({ZSTD_c_ldmHashRateLog, (int)t.range(0, 4), "ldmHashRateLog"});
            }
            family = F.ps;
        } else F.ps = family;
        bool ldm = F.ps.get(ZSTD_c_enableLongDistanceMatching, 0) == 1;
        if (gen::estimate_mem(F.ps) > (300ull << 20)) c.discard("memcap");
        int lvl = F.ps.get(ZSTD_c_compressionLevel, 3), strat = F.ps.get(ZSTD_c_strategy, 0);
        size_t wl = (size_t)F.ps.get(ZSTD_c_windowLog, 10);
        size_t maxsz = (lvl >= 16 || strat >= 7) ? (150u << 10) : (g_thorough ? (2u << 20) : (700u << 10));
        gen::ContentInfo ci;
        if (wl >= 17 && (((size_t)2 << wl) + (128u << 10)) < maxsz && t.chance(40)) { F.x = gen::gen_ring_stress(t, (size_t)t.range(((size_t)2 << wl) + (128u << 10), maxsz), (size_t)1 << wl); c.label("frames_ring_stress"); }
        else if (ldm && ((size_t)3 << wl) < maxsz && t.flip()) F.x = gen::gen_content_sized(t, (size_t)t.range((size_t)2 << wl, maxsz), &ci, (size_t)1 << wl);   // longer than the window
        else F.x = gen::gen_content(t, maxsz, &ci, (size_t)1 << wl);
        if (t.chance(ldm ? 40 : 20)) { F.asPrefix = t.flip(); F.dict = gen::gen_content_sized(t, (size_t)t.range(8, 20000)); if (F.dict.size() >= 4 && F.dict[0] == 0x37 && F.dict[1] == 0xA4) F.dict[0] = 1; if (F.x.size() > F.dict.size() && F.dict.size() > 64) memcpy(F.x.data(), F.dict.data() + F.dict.size() - 64, 64); }
        unsigned ns = (unsigned)t.range(0, 5);
        for (unsigned i = 0; i < ns; i++) F.steps.push_back({se::gen_chunk(t), t.chance(30) ? ZSTD_e_flush : ZSTD_e_continue});
        std::string err;
        std::vector<uint8_t> a, b;
        unsigned long long cBefore = wocf_ZSTD_verif_probe[0];
        if (!run_frame(WOCF, longlived, F, a, &err)) {
            // a clean refusal must be shared by the reference build
            void* fresh = NORMAL.create(); std::string e2; bool okRef = run_frame(NORMAL, fresh, F, b, &e2); NORMAL.freec(fresh);
            VF_CHECK(c, !okRef, "frame %u of a long-lived context fails (%s) where a fresh context in the normal build succeeds [%s]", fi, err.c_str(), F.ps.str().c_str());
            c.label("frame_refused_by_both"); continue;
        }
        unsigned long long corrections = wocf_ZSTD_verif_probe[0] - cBefore;
        void* fresh = NORMAL.create();
        bool okRef = run_frame(NORMAL, fresh, F, b, &err);
        NORMAL.freec(fresh);
        VF_CHECK(c, okRef, "reference (fresh context, normal build) failed: %s", err.c_str());
        total += F.x.size();
        if (fi < 3) c.note("f%u{%s %s dict=%zu steps=%zu corr=%llu} ", fi, F.ps.str().c_str(), ci.summary().c_str(), F.dict.size(), F.steps.size(), corrections);
        // round trip (normal decoder) and conformance (R)
        {
            ZSTD_DCtx* d = ZSTD_createDCtx(); std::vector<uint8_t> back(F.x.size() + 1);
            ZSTD_DCtx_setParameter(d, ZSTD_d_windowLogMax, 31);
            if (!F.dict.empty()) { if (F.asPrefix) ZSTD_DCtx_refPrefix(d, F.dict.data(), F.dict.size()); else ZSTD_DCtx_loadDictionary(d, F.dict.data(), F.dict.size()); }
            size_t r = ZSTD_decompressDCtx(d, back.data(), back.size(), a.data(), a.size());
            ZSTD_freeDCtx(d);
            VF_CHECK(c, !ZSTD_isError(r) && r == F.x.size() && (F.x.empty() || !memcmp(back.data(), F.x.data(), r)), "frame %u of a long-lived context (%llu index corrections during it, %llu bytes before it) does not round-trip: %s", fi, corrections, total - F.x.size(), ZSTD_isError(r) ? ZSTD_getErrorName(r) : "content differs");
            conform::Expect ex; ex.max_window = 1ull << wl; std::vector<conform::FrameFacts> facts;
            std::string v = conform::check(a.data(), a.size(), F.x.data(), F.x.size(), F.dict.empty() ? nullptr : F.dict.data(), F.dict.size(), ex, &facts);
            VF_CHECK(c, v.empty(), "frame %u of a long-lived context is not conformant: %s", fi, v.c_str());
            if (corrections) for (auto& ff : facts) if (ff.nseq) crossed++;
        }
        // the long-lived streaming decoder (its ring wraps on every frame longer than window + 2 blocks)
        {
            ZSTD_DCtx_reset(ldctx, ZSTD_reset_session_only);
            if (!F.dict.empty()) { if (F.asPrefix) ZSTD_DCtx_refPrefix(ldctx, F.dict.data(), F.dict.size()); else ZSTD_DCtx_loadDictionary(ldctx, F.dict.data(), F.dict.size()); }
            else ZSTD_DCtx_refDDict(ldctx, nullptr);
            size_t oc = (size_t)t.pick<size_t>({4096, 1000, 65536, 131072, 17});
            if (F.x.size() > (200u << 10) && oc < 1000) oc = 4096;
            vf::Buf ob(oc);
            ZSTD_inBuffer in = {a.data(), a.size(), 0}; size_t prod = 0, rr = 1; bool same = true;
            for (unsigned long g2 = 0; g2 < 100000000ul && rr != 0; g2++) {
                ZSTD_outBuffer o = {ob.p, ob.n, 0};
                size_t ip = in.pos;
                rr = ZSTD_decompressStream(ldctx, &o, &in);
                if (ZSTD_isError(rr)) break;
                if (o.pos && (prod + o.pos > F.x.size() || memcmp(F.x.data() + prod, ob.p, o.pos))) { same = false; break; }
                prod += o.pos;
                if (in.pos == ip && o.pos == 0) break;
            }
            VF_CHECK(c, !ZSTD_isError(rr) && same && prod == F.x.size(), "frame %u through a long-lived streaming decoder (output chunks of %zu, window 2^%zu): %s at regenerated offset %zu of %zu", fi, oc, wl, ZSTD_isError(rr) ? ZSTD_getErrorName(rr) : "content differs / incomplete", prod, F.x.size());
            c.label("frames_through_long_lived_streaming_decoder");
        }
        // a reused, much-rebased context behaves as a fresh one
        if (a != b) {
            size_t i = 0; while (i < a.size() && i < b.size() && a[i] == b[i]) i++;
            c.fail("frame %u: long-lived context with forced index corrections (%llu during this frame) produced %zu bytes, a fresh context in the normal build %zu bytes; first difference at %zu [%s, %zu bytes]", fi, corrections, a.size(), b.size(), i, F.ps.str().c_str(), F.x.size());
        }
        if (corrections) c.label("frames_with_index_correction");
        if (ldm) c.label("frames_with_ldm");
    }
    unsigned long long corrs = wocf_ZSTD_verif_probe[0] - corr0, invals = wocf_ZSTD_verif_probe[1] - inval0;
    c.label("index_corrections", corrs);
    c.label("dictionary_invalidations", invals);
    c.maxi("max_corrections_in_one_life", corrs);
    c.maxi("max_bytes_through_one_context", total);
    c.nontrivial = corrs >= 2 && crossed >= 1;
}
