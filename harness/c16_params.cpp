// C16 - parameter interface contract: bounds, stickiness, reset and stage rules.
// tape[0] selects: 1 => one cell of the exhaustive grid (target x parameter, stage), values looped inside;
//                  else => a generated sequence (sets, frames, resets) with observable effects checked.
#include "stream_engine.hpp"
#include <climits>

const char* vf_property_id() { return "C16"; }

struct CP { ZSTD_cParameter p; const char* name; bool zero_default; bool midframe_ok; };
static const CP CPARAMS[] = {
    {ZSTD_c_compressionLevel, "compressionLevel", true, true},
    {ZSTD_c_windowLog, "windowLog", true, false},
    {ZSTD_c_hashLog, "hashLog", true, true},
    {ZSTD_c_chainLog, "chainLog", true, true},
    {ZSTD_c_searchLog, "searchLog", true, true},
    {ZSTD_c_minMatch, "minMatch", true, true},
    {ZSTD_c_targetLength, "targetLength", true, true},
    {ZSTD_c_strategy, "strategy", true, true},
    {ZSTD_c_targetCBlockSize, "targetCBlockSize", true, false},
    {ZSTD_c_enableLongDistanceMatching, "enableLongDistanceMatching", false, false},
    {ZSTD_c_ldmHashLog, "ldmHashLog", true, false},
    {ZSTD_c_ldmMinMatch, "ldmMinMatch", true, false},
    {ZSTD_c_ldmBucketSizeLog, "ldmBucketSizeLog", true, false},
    {ZSTD_c_ldmHashRateLog, "ldmHashRateLog", true, false},
    {ZSTD_c_contentSizeFlag, "contentSizeFlag", false, false},
    {ZSTD_c_checksumFlag, "checksumFlag", false, false},
    {ZSTD_c_dictIDFlag, "dictIDFlag", false, false},
    {ZSTD_c_nbWorkers, "nbWorkers", false, false},
    {ZSTD_c_jobSize, "jobSize", true, false},
    {ZSTD_c_overlapLog, "overlapLog", true, false},
    {ZSTD_c_rsyncable, "rsyncable", false, false},
    {ZSTD_c_format, "format", false, false},
    {ZSTD_c_forceMaxWindow, "forceMaxWindow", false, false},
    {ZSTD_c_forceAttachDict, "forceAttachDict", false, false},
    {ZSTD_c_literalCompressionMode, "literalCompressionMode", false, false},
    {ZSTD_c_srcSizeHint, "srcSizeHint", true, false},
    {ZSTD_c_enableDedicatedDictSearch, "enableDedicatedDictSearch", false, false},
    {ZSTD_c_stableInBuffer, "stableInBuffer", false, false},
    {ZSTD_c_stableOutBuffer, "stableOutBuffer", false, false},
    {ZSTD_c_blockDelimiters, "blockDelimiters", false, false},
    {ZSTD_c_validateSequences, "validateSequences", false, false},
    {ZSTD_c_useBlockSplitter, "useBlockSplitter", false, false},
    {ZSTD_c_useRowMatchFinder, "useRowMatchFinder", false, false},
    {ZSTD_c_deterministicRefPrefix, "deterministicRefPrefix", false, false},
    {ZSTD_c_prefetchCDictTables, "prefetchCDictTables", false, false},
    {ZSTD_c_enableSeqProducerFallback, "enableSeqProducerFallback", false, false},
    {ZSTD_c_maxBlockSize, "maxBlockSize", true, false},
    {ZSTD_c_searchForExternalRepcodes, "searchForExternalRepcodes", false, false},
};
static const int NCP = (int)(sizeof CPARAMS / sizeof *CPARAMS);
struct DP { ZSTD_dParameter p; const char* name; bool zero_default; };
static const DP DPARAMS[] = {
    {ZSTD_d_windowLogMax, "d_windowLogMax", true}, {ZSTD_d_format, "d_format", false}, {ZSTD_d_stableOutBuffer, "d_stableOutBuffer", false},
    {ZSTD_d_forceIgnoreChecksum, "d_forceIgnoreChecksum", false}, {ZSTD_d_refMultipleDDicts, "d_refMultipleDDicts", false},
    {ZSTD_d_disableHuffmanAssembly, "d_disableHuffmanAssembly", false}, {ZSTD_d_maxBlockSize, "d_maxBlockSize", true},
};
static const int NDP = (int)(sizeof DPARAMS / sizeof *DPARAMS);

enum Stage { S_FRESH = 0, S_AFTER_FRAME, S_MIDFRAME, S_AFTER_ERROR, S_RESET_SESSION, S_RESET_PARAMS, S_RESET_BOTH, NSTAGES };
static const char* stage_name[] = {"fresh", "after_frame", "mid_frame", "after_error", "after_reset_session", "after_reset_parameters", "after_reset_both"};

static std::vector<int> value_classes(int lo, int hi, int dflt) {
    std::vector<long> v = {(long)lo - 1, lo, (long)lo + 1, 0, dflt, (long)hi - 1, hi, (long)hi + 1, INT_MIN, INT_MAX, ((long)lo + hi) / 2};
    std::vector<int> out;
    for (long x : v) { if (x < INT_MIN || x > INT_MAX) continue; out.push_back((int)x); }
    return out;
}

// documented normalisations of an in-bounds value
static int model_c(ZSTD_cParameter p, int v) {
    if (p == ZSTD_c_compressionLevel && v == 0) return ZSTD_CLEVEL_DEFAULT;           // "value 0 means default"
    if (p == ZSTD_c_jobSize && v != 0 && v < (512 << 10)) return 512 << 10;            // "minimum size is automatically and transparently enforced"
    if (p == ZSTD_c_targetCBlockSize && v != 0 && v < 1340) return 1340;               // ZSTD_TARGETCBLOCKSIZE_MIN, transparently enforced
    return v;
}

static void snapshot_c(ZSTD_CCtx* c, int* snap) { for (int i = 0; i < NCP; i++) { snap[i] = INT_MIN + 7; ZSTD_CCtx_getParameter(c, CPARAMS[i].p, &snap[i]); } }
static void snapshot_cp(ZSTD_CCtx_params* c, int* snap) { for (int i = 0; i < NCP; i++) { snap[i] = INT_MIN + 7; ZSTD_CCtxParams_getParameter(c, CPARAMS[i].p, &snap[i]); } }
static void snapshot_d(ZSTD_DCtx* d, int* snap) { for (int i = 0; i < NDP; i++) { snap[i] = INT_MIN + 7; ZSTD_DCtx_getParameter(d, DPARAMS[i].p, &snap[i]); } }

static std::vector<uint8_t> sample(size_t n) { std::vector<uint8_t> v(n); for (size_t i = 0; i < n; i++) v[i] = (uint8_t)("abcabcabd"[i % 9] + (i / 700)); return v; }

static void bring_c(vf::Ctx& c, ZSTD_CCtx* cctx, int stage) {
    // large enough that even stable-buffer modes must have started the frame after one continue call
    std::vector<uint8_t> x = sample(300000);
    std::vector<uint8_t> out(ZSTD_compressBound(x.size()));
    switch (stage) {
        case S_FRESH: break;
        case S_AFTER_FRAME: { size_t r = ZSTD_compress2(cctx, out.data(), out.size(), x.data(), x.size()); VF_CHECK(c, !ZSTD_isError(r), "setup frame: %s", ZSTD_getErrorName(r)); break; }
        case S_MIDFRAME: { ZSTD_inBuffer in = {x.data(), 200000, 0}; ZSTD_outBuffer ob = {out.data(), out.size(), 0}; size_t r = ZSTD_compressStream2(cctx, &ob, &in, ZSTD_e_continue); VF_CHECK(c, !ZSTD_isError(r), "setup midframe: %s", ZSTD_getErrorName(r)); break; }
        case S_AFTER_ERROR: { size_t r = ZSTD_compress2(cctx, out.data(), 5, x.data(), x.size()); VF_CHECK(c, ZSTD_isError(r), "setup error: a 5-byte destination sufficed?"); break; }
        case S_RESET_SESSION: bring_c(c, cctx, S_MIDFRAME); ZSTD_CCtx_reset(cctx, ZSTD_reset_session_only); break;
        case S_RESET_PARAMS: bring_c(c, cctx, S_AFTER_FRAME); ZSTD_CCtx_reset(cctx, ZSTD_reset_parameters); break;
        default: bring_c(c, cctx, S_MIDFRAME); ZSTD_CCtx_reset(cctx, ZSTD_reset_session_and_parameters); break;
    }
}

static void cell_cctx(vf::Ctx& c, int pi, int stage) {
    const CP& P = CPARAMS[pi];
    ZSTD_bounds b = ZSTD_cParam_getBounds(P.p);
    VF_CHECK(c, !ZSTD_isError(b.error), "getBounds(%s) fails", P.name);
    int dflt = 0;
    { ZSTD_CCtx* t = ZSTD_createCCtx(); ZSTD_CCtx_getParameter(t, P.p, &dflt); ZSTD_freeCCtx(t); }
    for (int v : value_classes(b.lowerBound, b.upperBound, dflt)) {
        ZSTD_CCtx* cctx = ZSTD_createCCtx();
        struct G { ZSTD_CCtx* c; ~G() { ZSTD_freeCCtx(c); } } g{cctx};
        int pre[64];
        snapshot_c(cctx, pre);
        bring_c(c, cctx, stage);
        int before[64], after[64];
        snapshot_c(cctx, before);
        // compressing a frame, failing, or a session reset never changes a parameter (sticky until a parameter reset)
        if (stage == S_AFTER_FRAME || stage == S_MIDFRAME || stage == S_AFTER_ERROR || stage == S_RESET_SESSION)
            for (int i = 0; i < NCP; i++) VF_CHECK(c, pre[i] == before[i], "reaching stage %s changed parameter %s from %d to %d although no setter was called", stage_name[stage], CPARAMS[i].name, pre[i], before[i]);
        size_t r = ZSTD_CCtx_setParameter(cctx, P.p, v);
        snapshot_c(cctx, after);
        bool inb = v >= b.lowerBound && v <= b.upperBound;
        bool zero_special = (v == 0 && P.zero_default);
        c.label("grid_evaluations");
        if (ZSTD_isError(r)) {
            for (int i = 0; i < NCP; i++) VF_CHECK(c, before[i] == after[i], "CCtx %s=%d at stage %s was rejected (%s) but %s changed from %d to %d", P.name, v, stage_name[stage], ZSTD_getErrorName(r), CPARAMS[i].name, before[i], after[i]);
            if (stage == S_MIDFRAME && !P.midframe_ok) { c.label("midframe_refusals"); continue; }
            // after a failed call the frame is still open until the caller resets (zstd.h): a refusal is as legitimate as mid-frame
            if (stage == S_AFTER_ERROR && ZSTD_getErrorCode(r) == ZSTD_error_stage_wrong) { c.label("after_error_refusals"); continue; }
            VF_CHECK(c, !(inb || zero_special) || stage == S_MIDFRAME, "CCtx %s=%d is inside the advertised bounds [%d,%d] but was rejected at stage %s: %s", P.name, v, b.lowerBound, b.upperBound, stage_name[stage], ZSTD_getErrorName(r));
            continue;
        }
        VF_CHECK(c, !(stage == S_MIDFRAME && !P.midframe_ok), "CCtx %s=%d was accepted in the middle of a frame (documented updatable set: level, hashLog, chainLog, searchLog, minMatch, targetLength, strategy)", P.name, v);
        int got = after[pi];
        if (inb || zero_special) VF_CHECK(c, got == model_c(P.p, v), "CCtx %s: set %d (bounds [%d,%d], stage %s) reads back %d, expected %d", P.name, v, b.lowerBound, b.upperBound, stage_name[stage], got, model_c(P.p, v));
        else VF_CHECK(c, got >= b.lowerBound && got <= b.upperBound, "CCtx %s: out-of-bounds value %d was accepted at stage %s and reads back %d, outside the advertised bounds [%d,%d]", P.name, v, stage_name[stage], got, b.lowerBound, b.upperBound);
        for (int i = 0; i < NCP; i++) if (i != pi) VF_CHECK(c, before[i] == after[i], "setting CCtx %s=%d changed %s from %d to %d", P.name, v, CPARAMS[i].name, before[i], after[i]);
    }
    // reset rules at this stage
    {
        ZSTD_CCtx* cctx = ZSTD_createCCtx();
        struct G { ZSTD_CCtx* c; ~G() { ZSTD_freeCCtx(c); } } g{cctx};
        int dfl[64], now[64];
        snapshot_c(cctx, dfl);
        int mid = (b.lowerBound + b.upperBound) / 2;
        if (mid == dfl[pi]) mid = b.upperBound;
        ZSTD_CCtx_setParameter(cctx, P.p, mid);
        bring_c(c, cctx, stage == S_MIDFRAME ? S_MIDFRAME : S_AFTER_FRAME);
        size_t r = ZSTD_CCtx_reset(cctx, ZSTD_reset_parameters);
        if (stage == S_MIDFRAME) {
            VF_CHECK(c, ZSTD_isError(r), "reset(parameters) in the middle of a frame was accepted");
            r = ZSTD_CCtx_reset(cctx, ZSTD_reset_session_and_parameters);
            VF_CHECK(c, !ZSTD_isError(r), "reset(session_and_parameters) failed: %s", ZSTD_getErrorName(r));
        } else VF_CHECK(c, !ZSTD_isError(r), "reset(parameters) between frames failed: %s", ZSTD_getErrorName(r));
        snapshot_c(cctx, now);
        for (int i = 0; i < NCP; i++) VF_CHECK(c, now[i] == dfl[i], "after a parameter reset %s reads %d, default is %d (had set %s=%d)", CPARAMS[i].name, now[i], dfl[i], P.name, mid);
    }
}

static void cell_cparams(vf::Ctx& c, int pi, int stage) {
    const CP& P = CPARAMS[pi];
    ZSTD_bounds b = ZSTD_cParam_getBounds(P.p);
    int dflt = 0;
    { ZSTD_CCtx_params* t = ZSTD_createCCtxParams(); ZSTD_CCtxParams_getParameter(t, P.p, &dflt); ZSTD_freeCCtxParams(t); }
    for (int v : value_classes(b.lowerBound, b.upperBound, dflt)) {
        ZSTD_CCtx_params* cp = ZSTD_createCCtxParams();
        struct G { ZSTD_CCtx_params* c; ~G() { ZSTD_freeCCtxParams(c); } } g{cp};
        if (stage % 3 == 1) ZSTD_CCtxParams_init(cp, 7);
        if (stage % 3 == 2) { ZSTD_CCtxParams_setParameter(cp, ZSTD_c_checksumFlag, 1); ZSTD_CCtxParams_reset(cp); }
        int before[64], after[64];
        snapshot_cp(cp, before);
        size_t r = ZSTD_CCtxParams_setParameter(cp, P.p, v);
        snapshot_cp(cp, after);
        bool inb = v >= b.lowerBound && v <= b.upperBound;
        bool zero_special = (v == 0 && P.zero_default);
        c.label("grid_evaluations");
        if (ZSTD_isError(r)) {
            for (int i = 0; i < NCP; i++) VF_CHECK(c, before[i] == after[i], "CCtxParams %s=%d rejected but %s changed %d -> %d", P.name, v, CPARAMS[i].name, before[i], after[i]);
            VF_CHECK(c, !(inb || zero_special), "CCtxParams %s=%d inside bounds [%d,%d] rejected: %s", P.name, v, b.lowerBound, b.upperBound, ZSTD_getErrorName(r));
            continue;
        }
        int got = after[pi];
        if (inb || zero_special) VF_CHECK(c, got == model_c(P.p, v), "CCtxParams %s: set %d reads back %d, expected %d", P.name, v, got, model_c(P.p, v));
        else VF_CHECK(c, got >= b.lowerBound && got <= b.upperBound, "CCtxParams %s: out-of-bounds %d accepted, reads back %d outside [%d,%d]", P.name, v, got, b.lowerBound, b.upperBound);
        for (int i = 0; i < NCP; i++) if (i != pi) VF_CHECK(c, before[i] == after[i], "setting CCtxParams %s=%d changed %s from %d to %d", P.name, v, CPARAMS[i].name, before[i], after[i]);
        // the object applied to a context reads back the same there
        ZSTD_CCtx* cctx = ZSTD_createCCtx();
        size_t rr = ZSTD_CCtx_setParametersUsingCCtxParams(cctx, cp);
        int viaCtx = INT_MIN + 7;
        if (!ZSTD_isError(rr)) { ZSTD_CCtx_getParameter(cctx, P.p, &viaCtx); VF_CHECK(c, viaCtx == got, "CCtxParams %s=%d applied to a CCtx reads back %d", P.name, got, viaCtx); }
        ZSTD_freeCCtx(cctx);
    }
}

static std::vector<uint8_t> a_frame(size_t n = 5000, int wlog = 0) {
    std::vector<uint8_t> x = sample(n), out(ZSTD_compressBound(n));
    ZSTD_CCtx* cc = ZSTD_createCCtx();
    if (wlog) ZSTD_CCtx_setParameter(cc, ZSTD_c_windowLog, wlog);
    ZSTD_inBuffer in = {x.data(), x.size(), 0}; ZSTD_outBuffer ob = {out.data(), out.size(), 0};
    ZSTD_compressStream2(cc, &ob, &in, ZSTD_e_continue);
    while (ZSTD_compressStream2(cc, &ob, &in, ZSTD_e_end)) {}
    ZSTD_freeCCtx(cc);
    out.resize(ob.pos);
    return out;
}

static void bring_d(vf::Ctx& c, ZSTD_DCtx* d, int stage) {
    static std::vector<uint8_t> f;
    if (f.empty()) f = a_frame(300000, 17);
    std::vector<uint8_t> out(400000);
    switch (stage) {
        case S_FRESH: break;
        case S_AFTER_FRAME: { size_t r = ZSTD_decompressDCtx(d, out.data(), out.size(), f.data(), f.size()); VF_CHECK(c, !ZSTD_isError(r), "setup: %s", ZSTD_getErrorName(r)); break; }
        case S_MIDFRAME: { ZSTD_inBuffer in = {f.data(), 40, 0}; ZSTD_outBuffer ob = {out.data(), 100, 0}; size_t r = ZSTD_decompressStream(d, &ob, &in); if (ZSTD_isError(r) || r == 0) throw 1; break; }
        case S_AFTER_ERROR: { size_t r = ZSTD_decompressDCtx(d, out.data(), 10, f.data(), f.size()); VF_CHECK(c, ZSTD_isError(r), "setup error"); break; }
        case S_RESET_SESSION: bring_d(c, d, S_MIDFRAME); ZSTD_DCtx_reset(d, ZSTD_reset_session_only); break;
        case S_RESET_PARAMS: bring_d(c, d, S_AFTER_FRAME); ZSTD_DCtx_reset(d, ZSTD_reset_parameters); break;
        default: bring_d(c, d, S_MIDFRAME); ZSTD_DCtx_reset(d, ZSTD_reset_session_and_parameters); break;
    }
}

static void cell_dctx(vf::Ctx& c, int pi, int stage) {
    const DP& P = DPARAMS[pi];
    ZSTD_bounds b = ZSTD_dParam_getBounds(P.p);
    VF_CHECK(c, !ZSTD_isError(b.error), "dParam_getBounds(%s) fails", P.name);
    int dflt = 0;
    { ZSTD_DCtx* t = ZSTD_createDCtx(); ZSTD_DCtx_getParameter(t, P.p, &dflt); ZSTD_freeDCtx(t); }
    for (int v : value_classes(b.lowerBound, b.upperBound, dflt)) {
        ZSTD_DCtx* d = ZSTD_createDCtx();
        struct G { ZSTD_DCtx* d; ~G() { ZSTD_freeDCtx(d); } } g{d};
        bring_d(c, d, stage);
        int before[16], after[16];
        snapshot_d(d, before);
        size_t r = ZSTD_DCtx_setParameter(d, P.p, v);
        snapshot_d(d, after);
        bool inb = v >= b.lowerBound && v <= b.upperBound;
        bool zero_special = (v == 0 && P.zero_default);
        c.label("grid_evaluations");
        if (ZSTD_isError(r)) {
            for (int i = 0; i < NDP; i++) VF_CHECK(c, before[i] == after[i], "DCtx %s=%d rejected at stage %s but %s changed %d -> %d", P.name, v, stage_name[stage], DPARAMS[i].name, before[i], after[i]);
            if (stage == S_MIDFRAME) { c.label("midframe_refusals"); continue; }
            if (stage == S_AFTER_ERROR && ZSTD_getErrorCode(r) == ZSTD_error_stage_wrong) { c.label("after_error_refusals"); continue; }
            VF_CHECK(c, !(inb || zero_special), "DCtx %s=%d inside bounds [%d,%d] rejected at stage %s: %s", P.name, v, b.lowerBound, b.upperBound, stage_name[stage], ZSTD_getErrorName(r));
            continue;
        }
        VF_CHECK(c, stage != S_MIDFRAME, "DCtx %s=%d accepted in the middle of a frame", P.name, v);
        int got = after[pi];
        int want = v;
        if (P.p == ZSTD_d_windowLogMax && v == 0) want = ZSTD_WINDOWLOG_LIMIT_DEFAULT;  // "value 0 means use default maximum windowLog"
        if (inb || zero_special) VF_CHECK(c, got == want, "DCtx %s: set %d (stage %s) reads back %d, expected %d", P.name, v, stage_name[stage], got, want);
        else VF_CHECK(c, got >= b.lowerBound && got <= b.upperBound, "DCtx %s: out-of-bounds %d accepted, reads back %d outside [%d,%d]", P.name, v, got, b.lowerBound, b.upperBound);
        for (int i = 0; i < NDP; i++) if (i != pi) VF_CHECK(c, before[i] == after[i], "setting DCtx %s=%d changed %s from %d to %d", P.name, v, DPARAMS[i].name, before[i], after[i]);
    }
    {
        ZSTD_DCtx* d = ZSTD_createDCtx();
        struct G { ZSTD_DCtx* d; ~G() { ZSTD_freeDCtx(d); } } g{d};
        int dfl[16], now[16];
        snapshot_d(d, dfl);
        ZSTD_DCtx_setParameter(d, P.p, b.upperBound);
        bool mid = stage == S_MIDFRAME;
        // (with e.g. format=magicless in force the setup frame is not decodable: then the context simply is not mid-frame)
        try { bring_d(c, d, mid ? S_MIDFRAME : S_FRESH); } catch (int) { mid = false; ZSTD_DCtx_reset(d, ZSTD_reset_session_only); }
        size_t r = ZSTD_DCtx_reset(d, ZSTD_reset_parameters);
        if (mid) { VF_CHECK(c, ZSTD_isError(r), "DCtx reset(parameters) mid-frame accepted"); r = ZSTD_DCtx_reset(d, ZSTD_reset_session_and_parameters); }
        VF_CHECK(c, !ZSTD_isError(r), "DCtx reset failed: %s", ZSTD_getErrorName(r));
        snapshot_d(d, now);
        for (int i = 0; i < NDP; i++) VF_CHECK(c, now[i] == dfl[i], "after DCtx parameter reset %s reads %d, default %d", DPARAMS[i].name, now[i], dfl[i]);
    }
}

// ---- generated sequences with observable effects ----
struct Eff { int checksum = 0, magicless = 0, contentSize = 1, windowLog = 0, maxBlock = 0, level = 3, workers = 0; };
static void apply_eff(ZSTD_CCtx* c, const Eff& e) {
    ZSTD_CCtx_setParameter(c, ZSTD_c_checksumFlag, e.checksum); ZSTD_CCtx_setParameter(c, ZSTD_c_format, e.magicless);
    ZSTD_CCtx_setParameter(c, ZSTD_c_contentSizeFlag, e.contentSize); if (e.windowLog) ZSTD_CCtx_setParameter(c, ZSTD_c_windowLog, e.windowLog);
    if (e.maxBlock) ZSTD_CCtx_setParameter(c, ZSTD_c_maxBlockSize, e.maxBlock); ZSTD_CCtx_setParameter(c, ZSTD_c_compressionLevel, e.level);
    ZSTD_CCtx_setParameter(c, ZSTD_c_nbWorkers, e.workers);
}
// one frame, one-shot or streamed, the same way on any context
static size_t one_frame(ZSTD_CCtx* cctx, bool oneshot, const std::vector<uint8_t>& x, std::vector<uint8_t>& out, std::string* err) {
    out.assign(ZSTD_compressBound(x.size()) + 64, 0);
    if (oneshot) { size_t n = ZSTD_compress2(cctx, out.data(), out.size(), x.data(), x.size()); if (ZSTD_isError(n)) *err = ZSTD_getErrorName(n); return n; }
    ZSTD_inBuffer in = {x.data(), x.size(), 0}; ZSTD_outBuffer ob = {out.data(), out.size(), 0};
    size_t r; unsigned gd = 0;
    do { r = ZSTD_compressStream2(cctx, &ob, &in, ZSTD_e_continue); if (ZSTD_isError(r)) { *err = ZSTD_getErrorName(r); return r; } } while (in.pos < in.size && ++gd < 100000);
    gd = 0;
    while ((r = ZSTD_compressStream2(cctx, &ob, &in, ZSTD_e_end)) != 0) { if (ZSTD_isError(r)) { *err = ZSTD_getErrorName(r); return r; } if (++gd > 100000) { *err = "end directive never returned 0"; return (size_t)-1; } }
    return ob.pos;
}

static void seq_case(vf::Ctx& c) {
    vf::Tape& t = c.t;
    ZSTD_CCtx* cctx = ZSTD_createCCtx();
    struct G { ZSTD_CCtx* c; ~G() { ZSTD_freeCCtx(c); } } g{cctx};
    Eff e;
    unsigned steps = (unsigned)t.range(2, 14);
    unsigned frames = 0, resets = 0, dict_frames = 0, frames_after_dict_drop = 0;
    // dictionary in force: 0 none, 1 loadDictionary, 2 refCDict, 3 refPrefix (next frame only)
    int dmode = 0; bool dropped = false;
    std::vector<uint8_t> dict; ZSTD_CDict* cd = nullptr;
    struct GD { ZSTD_CDict** p; ~GD() { ZSTD_freeCDict(*p); } } gd_{&cd};
    auto drop_prefix = [&]() { if (dmode == 3) { ZSTD_CCtx_refPrefix(cctx, nullptr, 0); dmode = 0; } };
    for (unsigned s = 0; s < steps; s++) {
        switch (t.weighted({4, 5, 1, 1, 1, 2})) {
            case 5: {  // attach / replace / detach a dictionary
                int k = (int)t.weighted({3, 2, 3, 1});
                std::vector<uint8_t> nd = gen::gen_content_sized(t, (size_t)t.range(64, 30000));
                if (nd.size() >= 4 && nd[0] == 0x37 && nd[1] == 0xA4) nd[0] = 1;
                size_t r = 0;
                if (k == 0) { dict = nd; r = ZSTD_CCtx_loadDictionary(cctx, dict.data(), dict.size()); dmode = 1; }
                else if (k == 1) { dict = nd; ZSTD_CDict* ncd = ZSTD_createCDict(dict.data(), dict.size(), e.level); r = ZSTD_CCtx_refCDict(cctx, ncd); ZSTD_freeCDict(cd); cd = ncd; dmode = 2; }
                else if (k == 2) { dict = nd; r = ZSTD_CCtx_refPrefix(cctx, dict.data(), dict.size()); dmode = 3; }
                else { r = ZSTD_CCtx_loadDictionary(cctx, nullptr, 0); dmode = 0; dropped = true; }
                VF_CHECK(c, !ZSTD_isError(r), "attaching a dictionary (kind %d) between frames: %s", k, ZSTD_getErrorName(r));
                c.note("dict%d ", k);
                break;
            }
            case 0: {  // set an effect-bearing parameter
                if (t.chance(15)) { e.workers = (int)t.range(0, 2); VF_CHECK(c, !ZSTD_isError(ZSTD_CCtx_setParameter(cctx, ZSTD_c_nbWorkers, e.workers)), "set nbWorkers"); c.note("set "); break; }
                switch (t.range(0, 5)) {
                    case 0: e.checksum = (int)t.range(0, 1); VF_CHECK(c, !ZSTD_isError(ZSTD_CCtx_setParameter(cctx, ZSTD_c_checksumFlag, e.checksum)), "set checksum"); break;
                    case 1: e.magicless = (int)t.range(0, 1); VF_CHECK(c, !ZSTD_isError(ZSTD_CCtx_setParameter(cctx, ZSTD_c_format, e.magicless)), "set format"); break;
                    case 2: e.contentSize = (int)t.range(0, 1); VF_CHECK(c, !ZSTD_isError(ZSTD_CCtx_setParameter(cctx, ZSTD_c_contentSizeFlag, e.contentSize)), "set csf"); break;
                    case 3: e.windowLog = (int)t.range(10, 20); VF_CHECK(c, !ZSTD_isError(ZSTD_CCtx_setParameter(cctx, ZSTD_c_windowLog, e.windowLog)), "set wlog"); break;
                    case 4: e.maxBlock = (int)t.range(1024, 131072); VF_CHECK(c, !ZSTD_isError(ZSTD_CCtx_setParameter(cctx, ZSTD_c_maxBlockSize, e.maxBlock)), "set maxBlockSize"); break;
                    default: e.level = (int)t.irange(1, 9); VF_CHECK(c, !ZSTD_isError(ZSTD_CCtx_setParameter(cctx, ZSTD_c_compressionLevel, e.level)), "set level"); break;
                }
                // zstd.h, ZSTD_CCtx_loadDictionary note 2: "compression parameters can no longer be changed after loading a dictionary"
                // (its tables were built for the parameters of that time): a caller who changes them loads the dictionary again
                if (dmode == 1) VF_CHECK(c, !ZSTD_isError(ZSTD_CCtx_loadDictionary(cctx, dict.data(), dict.size())), "re-loading the dictionary after a parameter change");
                c.note("set ");
                break;
            }
            case 1: {  // a frame; its header and blocks must reflect everything still in force
                gen::ContentInfo ci;
                std::vector<uint8_t> x = (e.workers && t.chance(50)) ? gen::gen_content_sized(t, (size_t)t.range(600u << 10, 1200u << 10), &ci) : gen::gen_content(t, 300u << 10, &ci);
                if (dmode && dict.size() > 128 && x.size() > 400) memcpy(&x[100], &dict[dict.size() - 100], 100);
                std::vector<uint8_t> out;
                bool oneshot = t.flip();
                std::string err;
                size_t n = one_frame(cctx, oneshot, x, out, &err);
                VF_CHECK(c, !ZSTD_isError(n), "frame %u: %s", frames, err.c_str());
                {   // "stays in force until reset, vanishes after reset": the frame is what a fresh context with exactly the
                    // settings and the dictionary still in force produces
                    ZSTD_CCtx* fresh = ZSTD_createCCtx(); apply_eff(fresh, e);
                    if (dmode == 1) ZSTD_CCtx_loadDictionary(fresh, dict.data(), dict.size());
                    if (dmode == 2) ZSTD_CCtx_refCDict(fresh, cd);
                    if (dmode == 3) ZSTD_CCtx_refPrefix(fresh, dict.data(), dict.size());
                    std::vector<uint8_t> ref; std::string e2; size_t rn = one_frame(fresh, oneshot, x, ref, &e2);
                    ZSTD_freeCCtx(fresh);
                    VF_CHECK(c, !ZSTD_isError(rn), "reference frame on a fresh context failed: %s", e2.c_str());
                    if (n != rn || memcmp(out.data(), ref.data(), n)) {
                        size_t i = 0; while (i < n && i < rn && out[i] == ref[i]) i++;
                        c.fail("frame %u (%s, %zu bytes, nbWorkers=%d, dictionary mode %d, %u resets so far): the context produced %zu bytes, a fresh context with the settings and dictionary in force %zu bytes (first difference at %zu): a setting or dictionary that was reset/replaced is still in effect, or one in force was lost",
                               frames, oneshot ? "one-shot" : "streamed", x.size(), e.workers, dmode, resets, n, rn, i);
                    }
                }
                fw::Frame f = fw::walk(out.data(), n, e.magicless);
                VF_CHECK(c, f.ok && f.total_size == n, "frame %u does not parse with magicless=%d (format parameter not in force?)", frames, e.magicless);
                VF_CHECK(c, (int)f.has_checksum == e.checksum, "frame %u: checksum flag %d, parameter in force says %d", frames, (int)f.has_checksum, e.checksum);
                if (oneshot) VF_CHECK(c, (int)f.has_fcs == e.contentSize || (e.contentSize == 0 && f.single_segment), "frame %u (one-shot): content size present=%d, contentSizeFlag=%d", frames, (int)f.has_fcs, e.contentSize);
                if (!oneshot) VF_CHECK(c, !f.has_fcs, "frame %u streamed with unknown size carries a content size", frames);
                // windowLog is a maximum: with a known (small) source the library may declare less; with an unknown size it has nothing to shrink to
                if (e.windowLog && !f.single_segment && !oneshot) VF_CHECK(c, f.window_size == (1ull << e.windowLog), "frame %u: window %llu, windowLog=%d in force", frames, (unsigned long long)f.window_size, e.windowLog);
                if (e.windowLog && !f.single_segment) VF_CHECK(c, f.window_size <= (1ull << e.windowLog), "frame %u: window %llu exceeds windowLog=%d in force", frames, (unsigned long long)f.window_size, e.windowLog);
                if (e.windowLog && f.single_segment) VF_CHECK(c, f.window_size <= (1ull << e.windowLog) || x.size() <= (1ull << e.windowLog), "single segment frame exceeds window");
                if (e.maxBlock) for (auto& b : f.blocks) if (b.type != 2) VF_CHECK(c, b.size <= (size_t)e.maxBlock, "frame %u: raw/RLE block of %zu bytes, maxBlockSize=%d in force", frames, b.size, e.maxBlock);
                if (e.maxBlock) for (auto& b : f.blocks) if (b.type == 2) VF_CHECK(c, b.size < (size_t)e.maxBlock + 3, "frame %u: compressed block of %zu bytes, maxBlockSize=%d in force", frames, b.size, e.maxBlock);
                // and it decodes
                ZSTD_DCtx* d = ZSTD_createDCtx();
                if (e.magicless) ZSTD_DCtx_setParameter(d, ZSTD_d_format, ZSTD_f_zstd1_magicless);
                if (dmode == 1 || dmode == 2) ZSTD_DCtx_loadDictionary(d, dict.data(), dict.size());
                if (dmode == 3) ZSTD_DCtx_refPrefix(d, dict.data(), dict.size());
                std::vector<uint8_t> back(x.size());
                size_t dn = ZSTD_decompressDCtx(d, back.data(), back.size(), out.data(), n);
                ZSTD_freeDCtx(d);
                VF_CHECK(c, dn == x.size() && back == x, "frame %u does not round trip with the dictionary in force (mode %d): %s", frames, dmode, ZSTD_isError(dn) ? ZSTD_getErrorName(dn) : "content differs");
                if (dmode) dict_frames++; else if (dropped) frames_after_dict_drop++;
                if (dmode == 3) dmode = 0;   // a prefix is single use
                frames++;
                c.note("frame(%zu,%s) ", x.size(), oneshot ? "oneshot" : "stream");
                break;
            }
            case 2: {  // parameters must survive a session reset, also one that follows a failed call
                int pre[64], post[64];
                drop_prefix();
                snapshot_c(cctx, pre);
                if (t.flip()) {
                    std::vector<uint8_t> x = sample((size_t)t.range(1000, 200000));
                    uint8_t tiny[8];
                    size_t r = ZSTD_compress2(cctx, tiny, (size_t)t.range(0, 8), x.data(), x.size());
                    VF_CHECK(c, ZSTD_isError(r), "a %zu-byte input fit into <=8 bytes?", x.size());
                    c.note("failed_oneshot ");
                }
                ZSTD_CCtx_reset(cctx, ZSTD_reset_session_only);
                snapshot_c(cctx, post);
                for (int i = 0; i < NCP; i++) VF_CHECK(c, pre[i] == post[i], "a failed call + session reset changed parameter %s from %d to %d", CPARAMS[i].name, pre[i], post[i]);
                c.note("reset_session ");
                break;
            }
            case 3: { size_t r = ZSTD_CCtx_reset(cctx, t.flip() ? ZSTD_reset_parameters : ZSTD_reset_session_and_parameters); VF_CHECK(c, !ZSTD_isError(r), "reset"); e = Eff(); resets++; if (dmode) dropped = true; dmode = 0; c.note("reset_params "); break; }
            default: {  // the simple API ignores advanced settings: equals a fresh context at that level
                drop_prefix();
                std::vector<uint8_t> x = sample((size_t)t.range(0, 60000));
                std::vector<uint8_t> o1(ZSTD_compressBound(x.size())), o2(o1.size());
                int lvl = (int)t.irange(1, 7);
                size_t a = ZSTD_compressCCtx(cctx, o1.data(), o1.size(), x.data(), x.size(), lvl);
                size_t b = ZSTD_compress(o2.data(), o2.size(), x.data(), x.size(), lvl);
                VF_CHECK(c, !ZSTD_isError(a) && !ZSTD_isError(b), "simple API failed");
                VF_CHECK(c, a == b && !memcmp(o1.data(), o2.data(), a), "ZSTD_compressCCtx output differs from ZSTD_compress at level %d although advanced settings must be ignored (checksum=%d format=%d wlog=%d maxBlock=%d)", lvl, e.checksum, e.magicless, e.windowLog, e.maxBlock);
                // ... and the advanced settings are still there afterwards
                int cs = -1; ZSTD_CCtx_getParameter(cctx, ZSTD_c_checksumFlag, &cs);
                VF_CHECK(c, cs == e.checksum, "checksumFlag reads %d after ZSTD_compressCCtx, %d was set", cs, e.checksum);
                c.note("simple ");
                break;
            }
        }
    }
    c.label("mode:sequence");
    c.label("seq_frames_with_dictionary", dict_frames); c.label("seq_frames_after_dictionary_dropped", frames_after_dict_drop);
    c.nontrivial = frames >= 2 && (e.checksum || e.magicless || e.windowLog || e.maxBlock || resets || dict_frames);
}


// ---- generated DCtx sequences: dictionaries and parameters stay in force until reset, a prefix serves one frame ----
static std::vector<uint8_t> g_golden;
static std::vector<uint8_t> make_frame(const std::vector<uint8_t>& x, int kind, const std::vector<uint8_t>& raw, int wlog) {
    // kind 0 plain, 1 golden dictionary (dictID), 2 raw-content dictionary, 3 prefix
    ZSTD_CCtx* c = ZSTD_createCCtx();
    ZSTD_CCtx_setParameter(c, ZSTD_c_checksumFlag, 1);
    if (wlog) ZSTD_CCtx_setParameter(c, ZSTD_c_windowLog, wlog);
    if (kind == 1) ZSTD_CCtx_loadDictionary(c, g_golden.data(), g_golden.size());
    if (kind == 2) ZSTD_CCtx_loadDictionary(c, raw.data(), raw.size());
    if (kind == 3) ZSTD_CCtx_refPrefix(c, raw.data(), raw.size());
    std::vector<uint8_t> out(ZSTD_compressBound(x.size()) + 64);
    ZSTD_inBuffer in = {x.data(), x.size(), 0}; ZSTD_outBuffer ob = {out.data(), out.size(), 0};
    size_t r = ZSTD_compressStream2(c, &ob, &in, wlog ? ZSTD_e_flush : ZSTD_e_end);   // a flush first: size unknown, the window is declared as set
    while (!ZSTD_isError(r) && (r = ZSTD_compressStream2(c, &ob, &in, ZSTD_e_end)) != 0) {}
    ZSTD_freeCCtx(c);
    out.resize(ZSTD_isError(r) ? 0 : ob.pos);
    return out;
}
static size_t dec_stream(ZSTD_DCtx* d, const std::vector<uint8_t>& f, std::vector<uint8_t>& out) {
    out.clear(); std::vector<uint8_t> ob(1 << 16);
    ZSTD_inBuffer in = {f.data(), f.size(), 0}; size_t r = 1; unsigned g = 0;
    while (r != 0) {
        ZSTD_outBuffer o = {ob.data(), ob.size(), 0};
        size_t ip = in.pos;
        r = ZSTD_decompressStream(d, &o, &in);
        if (ZSTD_isError(r)) return r;
        out.insert(out.end(), ob.data(), ob.data() + o.pos);
        if (r != 0 && in.pos == ip && o.pos == 0) return (size_t)-ZSTD_error_srcSize_wrong;   // input ended inside the frame
        if (++g > 100000) return (size_t)-ZSTD_error_GENERIC;
    }
    return 0;
}
static void dseq_case(vf::Ctx& c) {
    vf::Tape& t = c.t;
    if (g_golden.empty()) { const char* repo = getenv("VERIF_REPO"); std::string p = std::string(repo ? repo : "/repo") + "/tests/golden-dictionaries/http-dict-missing-symbols"; FILE* f = fopen(p.c_str(), "rb"); VF_CHECK(c, f != nullptr, "golden dictionary missing"); uint8_t b[4096]; size_t r; while ((r = fread(b, 1, sizeof b, f)) > 0) g_golden.insert(g_golden.end(), b, b + r); fclose(f); }
    std::vector<uint8_t> raw = gen::gen_content_sized(t, (size_t)t.range(2000, 20000));
    if (raw.size() >= 4 && raw[0] == 0x37 && raw[1] == 0xA4) raw[0] = 1;
    std::vector<uint8_t> x = gen::gen_content_sized(t, (size_t)t.range(3000, 60000));
    // the content leans on the dictionaries so that decoding without the right one cannot come out right
    for (size_t i = 0; i + 600 < x.size() && i < 6000; i += 1200) { memcpy(&x[i], &raw[raw.size() - 500], 500); }
    std::vector<uint8_t> xg = x; for (size_t i = 0; i + 600 < xg.size() && i < 6000; i += 1200) memcpy(&xg[i], &g_golden[g_golden.size() - 500], 500);
    std::vector<uint8_t> frames[5] = {make_frame(x, 0, raw, 0), make_frame(xg, 1, raw, 0), make_frame(x, 2, raw, 0), make_frame(x, 3, raw, 0), make_frame(x, 0, raw, 20)};
    const std::vector<uint8_t>* plain[5] = {&x, &xg, &x, &x, &x};
    static const char* fname[5] = {"plain", "golden-dictionary", "raw-dictionary", "prefix", "plain-window-2^20"};
    for (auto& f : frames) VF_CHECK(c, !f.empty(), "frame preparation failed");
    ZSTD_DCtx* d = ZSTD_createDCtx(); ZSTD_DDict* dd = ZSTD_createDDict(g_golden.data(), g_golden.size());
    struct G { ZSTD_DCtx* d; ZSTD_DDict* dd; ~G() { ZSTD_freeDCtx(d); ZSTD_freeDDict(dd); } } g{d, dd};
    int dmode = 0, maxwl = 0;   // 0 none, 1 raw loaded, 2 golden loaded, 3 golden DDict referenced, 4 raw prefix (one frame)
    unsigned steps = (unsigned)t.range(3, 16), decodes = 0, sticky_uses = 0, drops_checked = 0; bool was_dropped = false;
    for (unsigned s = 0; s < steps; s++) {
        switch (t.weighted({3, 6, 1, 1, 1})) {
            case 0: {
                int k = (int)t.range(1, 5); size_t r = 0;
                if (k == 1) r = ZSTD_DCtx_loadDictionary(d, raw.data(), raw.size());
                if (k == 2) r = ZSTD_DCtx_loadDictionary(d, g_golden.data(), g_golden.size());
                if (k == 3) r = ZSTD_DCtx_refDDict(d, dd);
                if (k == 4) r = ZSTD_DCtx_refPrefix(d, raw.data(), raw.size());
                if (k == 5) { r = ZSTD_DCtx_loadDictionary(d, nullptr, 0); k = 0; was_dropped = true; }
                VF_CHECK(c, !ZSTD_isError(r), "setting dictionary kind %d on a DCtx between frames: %s", k, ZSTD_getErrorName(r));
                dmode = k; c.note("dict%d ", k); break;
            }
            case 1: {
                int fi = (int)t.range(0, 4);
                // expectation = what a FRESH DCtx with exactly the dictionary and limit in force does with this frame
                bool expect_ok;
                {
                    ZSTD_DCtx* fr = ZSTD_createDCtx();
                    if (maxwl) ZSTD_DCtx_setParameter(fr, ZSTD_d_windowLogMax, maxwl);
                    if (dmode == 1) ZSTD_DCtx_loadDictionary(fr, raw.data(), raw.size());
                    if (dmode == 2) ZSTD_DCtx_loadDictionary(fr, g_golden.data(), g_golden.size());
                    if (dmode == 3) ZSTD_DCtx_refDDict(fr, dd);
                    if (dmode == 4) ZSTD_DCtx_refPrefix(fr, raw.data(), raw.size());
                    std::vector<uint8_t> o2; size_t r2 = dec_stream(fr, frames[fi], o2);
                    ZSTD_freeDCtx(fr);
                    expect_ok = !ZSTD_isError(r2);
                    if (expect_ok) VF_CHECK(c, o2 == *plain[fi], "reference decode produced wrong bytes");
                }
                std::vector<uint8_t> out; size_t r = dec_stream(d, frames[fi], out);
                bool ok = !ZSTD_isError(r);
                if (expect_ok) VF_CHECK(c, ok && out == *plain[fi], "%s frame with dictionary state %d, windowLogMax %d in force: %s (decode %u of the sequence, %u sticky uses before)", fname[fi], dmode, maxwl, ok ? "decoded to different bytes" : ZSTD_getErrorName(r), decodes, sticky_uses);
                else VF_CHECK(c, !ok, "%s frame decoded successfully on the long-lived DCtx although a fresh DCtx with dictionary state %d and windowLogMax %d refuses it (a dropped dictionary / reset parameter is still in effect, or a limit in force was ignored)", fname[fi], dmode, maxwl);
                if (expect_ok && fi >= 1 && fi <= 3 && dmode != 4) sticky_uses++;
                if (!expect_ok && was_dropped && fi >= 1 && fi <= 3) drops_checked++;
                if (!ok) ZSTD_DCtx_reset(d, ZSTD_reset_session_only);
                if (dmode == 4) { if (!ok) ZSTD_DCtx_refPrefix(d, nullptr, 0); dmode = 0; }   // a prefix serves one frame
                decodes++; c.note("dec(%s,%s) ", fname[fi], ok ? "ok" : "err"); break;
            }
            case 2: { maxwl = t.flip() ? 15 : 25; VF_CHECK(c, !ZSTD_isError(ZSTD_DCtx_setParameter(d, ZSTD_d_windowLogMax, maxwl)), "set windowLogMax"); c.note("wlmax=%d ", maxwl); break; }
            case 3: { if (dmode == 4) { ZSTD_DCtx_refPrefix(d, nullptr, 0); dmode = 0; } VF_CHECK(c, !ZSTD_isError(ZSTD_DCtx_reset(d, ZSTD_reset_session_only)), "session reset"); c.note("reset_session "); break; }
            default: { VF_CHECK(c, !ZSTD_isError(ZSTD_DCtx_reset(d, t.flip() ? ZSTD_reset_parameters : ZSTD_reset_session_and_parameters)), "parameter reset"); if (dmode) was_dropped = true; dmode = 0; maxwl = 0; c.note("reset_params "); break; }
        }
    }
    c.label("mode:dctx_sequence"); c.label("dseq_sticky_dictionary_uses", sticky_uses); c.label("dseq_refusals_after_drop", drops_checked);
    c.nontrivial = decodes >= 2 && (sticky_uses >= 2 || drops_checked);
}

void vf_case(vf::Ctx& c) {
    vf::Tape& t = c.t;
    unsigned mode = (unsigned)t.raw();
    if (mode != 1) { if (mode % 4 == 0) dseq_case(c); else seq_case(c); return; }
    unsigned target = (unsigned)t.raw(), stage = (unsigned)t.raw() % NSTAGES;
    unsigned total = (unsigned)(2 * NCP + NDP);
    target %= total;
    if (target < (unsigned)NCP) { c.note("grid CCtx %s @%s", CPARAMS[target].name, stage_name[stage]); cell_cctx(c, (int)target, (int)stage); }
    else if (target < (unsigned)(2 * NCP)) { c.note("grid CCtxParams %s @%u", CPARAMS[target - NCP].name, stage % 3); cell_cparams(c, (int)(target - NCP), (int)stage); }
    else { c.note("grid DCtx %s @%s", DPARAMS[target - 2 * NCP].name, stage_name[stage]); cell_dctx(c, (int)(target - 2 * NCP), (int)stage); }
    c.label("mode:grid");
    c.label("grid_cells");
    c.nontrivial = true;
}
