// C17 - sequence-level compression: valid parses round-trip, invalid ones are refused.
#include "stream_engine.hpp"
#include "conformance.hpp"
#include <unordered_map>

const char* vf_property_id() { return "C17"; }
static bool g_thorough = false;
void vf_setup() { const char* e = getenv("VERIF_TIER"); g_thorough = e && !strcmp(e, "thorough"); }

struct ParseOpts { size_t window; size_t dictSize; unsigned minMatch; bool explicitDelims; size_t blockSize; bool repHeavy; bool oneBlock = false; };

// own random parser: a valid parse of x (optionally with history `dict` in front), built with a small hash matcher and tape choices
static std::vector<ZSTD_Sequence> random_parse(vf::Tape& t, const std::vector<uint8_t>& dict, const std::vector<uint8_t>& x, const ParseOpts& po, unsigned* crossing, unsigned* dictMatches) {
    std::vector<ZSTD_Sequence> seqs;
    std::vector<uint8_t> all(dict); all.insert(all.end(), x.begin(), x.end());
    size_t D = dict.size(), N = x.size();
    std::unordered_map<uint32_t, std::vector<size_t>> table;   // 3-byte hash -> positions in `all`
    auto key = [&](size_t p) { return (uint32_t)all[p] | ((uint32_t)all[p + 1] << 8) | ((uint32_t)all[p + 2] << 16); };
    size_t indexed = 0;
    auto index_upto = [&](size_t upto) { for (; indexed + 3 <= all.size() && indexed < upto; indexed++) { auto& v = table[key(indexed)]; if (v.size() < 6) v.push_back(indexed); else v[indexed % 6] = indexed; } };
    gen::Xs xs(t.raw() + 3);
    unsigned matchPct = (unsigned)t.pick<unsigned>({70, 30, 95, 10});
    size_t pos = 0, lit = 0, blockStart = 0;
    size_t curBlock = po.explicitDelims ? std::max<size_t>(1, po.blockSize - (size_t)(xs.next() % std::max<size_t>(1, po.blockSize / 2))) : (size_t)-1;
    if (po.oneBlock) curBlock = po.blockSize;
    size_t lastOff = 0;
    while (pos < N) {
        size_t blockEnd = po.explicitDelims ? std::min(N, blockStart + curBlock) : N;
        if (po.explicitDelims && pos >= blockEnd) {
            seqs.push_back({0, (unsigned)lit, 0, 0});
            lit = 0; blockStart = pos;
            curBlock = std::max<size_t>(1, po.blockSize - (size_t)(xs.next() % std::max<size_t>(1, po.blockSize / 2)));
            if (xs.next() % 5 == 0) curBlock = po.blockSize;
            continue;
        }
        index_upto(D + pos);
        bool found = false;
        if (pos + 3 <= N && (xs.next() % 100) < matchPct) {
            size_t cur = D + pos;
            std::vector<size_t> cands;
            auto it = table.find(key(cur));
            if (it != table.end()) cands = it->second;
            if (po.repHeavy && lastOff && lastOff <= cur) cands.push_back(cur - lastOff);
            if (cur >= 1) cands.push_back(cur - 1);
            // pick among candidates that are legal at the match start AND at the match end under the window/dictionary rule
            for (unsigned tries = 0; tries < 4 && !cands.empty() && !found; tries++) {
                size_t q = cands[xs.next() % cands.size()];
                if (q >= cur) continue;
                size_t off = cur - q;
                size_t ml = 0, maxml = blockEnd - pos;
                while (ml < maxml && all[q + ml] == all[cur + ml]) ml++;
                if (ml < std::max<unsigned>(3, po.minMatch)) continue;
                if (xs.next() % 3 == 0) ml = std::max<size_t>(std::max<unsigned>(3, po.minMatch), ml - xs.next() % (ml - 2));   // not always the longest
                bool intoDict = off > pos;
                // legal under the spec at match start; and (library's end-based reading) at match end
                auto ok_at = [&](size_t p) { return p > po.window ? off <= po.window : off <= p + D; };
                if (!ok_at(pos) || !ok_at(pos + ml)) continue;
                if (off > po.window && !intoDict) continue;
                if (intoDict && pos + ml > po.window) continue;   // keep dictionary references strictly inside the reach
                if (ml > 65535 + 3 && xs.next() % 2) ml = 65535;   // long matches are allowed; keep some
                seqs.push_back({(unsigned)off, (unsigned)lit, (unsigned)ml, 0});
                if (!po.explicitDelims && (pos / 131072) != ((pos + ml - 1) / 131072)) (*crossing)++;
                if (intoDict) (*dictMatches)++;
                lit = 0; pos += ml; lastOff = off; found = true;
            }
        }
        if (!found) { pos++; lit++; }
    }
    if (po.explicitDelims) seqs.push_back({0, (unsigned)lit, 0, 0});
    // delimiter-free mode: trailing literals stay implicit ("If srcSize > sum(sequence.length), the remaining bytes are considered
    // all literals"); an explicit (0,lit,0) entry would be a delimiter, which that mode documents as absent
    return seqs;
}

struct ProducerState { const std::vector<uint8_t>* x; unsigned minMatch; int fail_mode; unsigned calls; vf::Tape* t; };
static size_t producer(void* st, ZSTD_Sequence* outSeqs, size_t cap, const void* src, size_t srcSize, const void* dict, size_t dictSize, int level, size_t windowSize) {
    ProducerState* s = (ProducerState*)st;
    (void)dict; (void)dictSize; (void)level;
    s->calls++;
    if (s->fail_mode == 1 || (s->fail_mode == 2 && s->calls == 2)) return ZSTD_SEQUENCE_PRODUCER_ERROR;
    std::vector<uint8_t> blk((const uint8_t*)src, (const uint8_t*)src + srcSize), nodict;
    ParseOpts po{windowSize, 0, 3, true, srcSize ? srcSize : 1, false};
    po.oneBlock = true;   // the producer parses exactly one block: a single final delimiter
    unsigned a = 0, b = 0;
    vf::Tape local = *s->t;   // deterministic: the producer draws from a copy positioned where registration left it
    std::vector<ZSTD_Sequence> v = random_parse(local, nodict, blk, po, &a, &b);
    if (getenv("VF_TRACE")) { fprintf(stderr, "producer: srcSize=%zu window=%zu cap=%zu -> %zu seqs:", srcSize, windowSize, cap, v.size()); for (auto& q : v) fprintf(stderr, " (of %u ll %u ml %u)", q.offset, q.litLength, q.matchLength); fprintf(stderr, "\n"); }
    if (s->fail_mode == 3 && !v.empty() && (s->calls == 1 || local.flip())) {
        // a misbehaving producer: field corruptions of its valid parse, incl. lengths that wrap 32-bit sums
        unsigned nc = (unsigned)local.range(1, 4);
        for (unsigned i = 0; i < nc; i++) {
            ZSTD_Sequence& q = v[(size_t)local.range(0, v.size() - 1)];
            switch (local.weighted({3, 3, 2, 2, 2})) {
                case 0: q.litLength = (unsigned)local.pick<unsigned>({0xFFFFFFFFu, 0x80000000u, 0x40000000u, 0xFFFFFF00u}) + (local.flip() ? q.litLength : 0); break;
                case 1: q.matchLength = (unsigned)local.pick<unsigned>({0xFFFFFFFFu, 0x80000000u, 0x40000000u, 0xFFFF0000u}) + (local.flip() ? q.matchLength : 0); break;
                case 2: q.offset = (unsigned)local.range(0, 0xFFFFFFFFu); if (q.offset == 0) q.matchLength = 0; break;
                case 3: q.litLength += (unsigned)local.range(1, 200000); break;
                default: q.matchLength = (unsigned)local.range(0, 200000); if (q.offset == 0) q.matchLength = 0; break;
            }
        }
    }
    if (v.size() > cap) return ZSTD_SEQUENCE_PRODUCER_ERROR;
    memcpy(outSeqs, v.data(), v.size() * sizeof(ZSTD_Sequence));
    return v.size();
}

void vf_case(vf::Ctx& c) {
    vf::Tape& t = c.t;
    struct Cx { ZSTD_CCtx* c = ZSTD_createCCtx(); ZSTD_DCtx* d = ZSTD_createDCtx(); ~Cx() { ZSTD_freeCCtx(c); ZSTD_freeDCtx(d); } } k;
    int how = (int)t.weighted({5, 2, 2, 4});   // own parse | generateSequences | block-level producer | corrupted / arbitrary
    int wl = (int)t.range(10, 20);
    size_t window = (size_t)1 << wl;
    unsigned minMatch = (unsigned)t.range(3, 7);
    int lvl = (int)t.irange(1, 9);
    bool explicitD = t.flip();
    int repSearch = (int)t.range(0, 2);
    bool validate = how == 3 ? true : t.flip();
    int dk = (how == 0 || how == 3) ? (int)t.weighted({5, 2, 2}) : 0;   // none | loadDictionary(raw) | refPrefix
    std::vector<uint8_t> dict;
    if (dk) dict = gen::gen_content_sized(t, (size_t)t.range(8, 30000));
    if (dk && dict.size() >= 4 && dict[0] == 0x37 && dict[1] == 0xA4) dict[0] = 1;
    gen::ContentInfo ci;
    std::vector<uint8_t> x = gen::gen_content(t, g_thorough ? (1u << 20) : (400u << 10), &ci, window);
    if (dk && !dict.empty() && x.size() > 32) { size_t len = std::min<size_t>(dict.size(), std::min<size_t>(x.size() / 2, 500)); memcpy(&x[t.range(0, std::min<size_t>(x.size() - len, window / 2))], &dict[dict.size() - len], len); }

    auto setup = [&]() {
        ZSTD_CCtx_reset(k.c, ZSTD_reset_session_and_parameters);
        ZSTD_CCtx_setParameter(k.c, ZSTD_c_compressionLevel, lvl);
        ZSTD_CCtx_setParameter(k.c, ZSTD_c_windowLog, wl);
        ZSTD_CCtx_setParameter(k.c, ZSTD_c_minMatch, (int)minMatch);
        ZSTD_CCtx_setParameter(k.c, ZSTD_c_blockDelimiters, explicitD ? ZSTD_sf_explicitBlockDelimiters : ZSTD_sf_noBlockDelimiters);
        ZSTD_CCtx_setParameter(k.c, ZSTD_c_validateSequences, validate);
        ZSTD_CCtx_setParameter(k.c, ZSTD_c_searchForExternalRepcodes, repSearch);
        ZSTD_CCtx_setParameter(k.c, ZSTD_c_checksumFlag, 1);
        if (dk == 1) ZSTD_CCtx_loadDictionary_advanced(k.c, dict.data(), dict.size(), ZSTD_dlm_byRef, ZSTD_dct_rawContent);
        if (dk == 2) ZSTD_CCtx_refPrefix(k.c, dict.data(), dict.size());
    };
    auto decode_check = [&](const uint8_t* f, size_t n, const char* what) {
        std::vector<uint8_t> back(x.size() + 1);
        ZSTD_DCtx_reset(k.d, ZSTD_reset_session_and_parameters);
        if (dk == 1) ZSTD_DCtx_loadDictionary_advanced(k.d, dict.data(), dict.size(), ZSTD_dlm_byRef, ZSTD_dct_rawContent);
        if (dk == 2) ZSTD_DCtx_refPrefix(k.d, dict.data(), dict.size());
        size_t r = ZSTD_decompressDCtx(k.d, back.data(), back.size(), f, n);
        VF_CHECK(c, !ZSTD_isError(r), "%s: the frame does not decode: %s", what, ZSTD_getErrorName(r));
        VF_CHECK(c, r == x.size() && (x.empty() || !memcmp(back.data(), x.data(), r)), "%s: decoded content differs from the source", what);
        conform::Expect ex; ex.expect_checksum = 1; ex.max_window = window;
        std::vector<conform::FrameFacts> facts;
        std::string v = conform::check(f, n, x.data(), x.size(), dict.empty() ? nullptr : dict.data(), dict.size(), ex, &facts);
        VF_CHECK(c, v.empty(), "%s: frame is not conformant: %s", what, v.c_str());
        for (auto& fct : facts) if (fct.seq_from_dict) c.label("frames_with_dictionary_offsets");
    };
    vf::Buf dst(ZSTD_compressBound(x.size()) + 1024);
    c.note("how=%d wl=%d minMatch=%u level=%d explicit=%d repSearch=%d validate=%d dict=%d/%zu %s; ", how, wl, minMatch, lvl, (int)explicitD, repSearch, (int)validate, dk, dict.size(), ci.summary().c_str());

    if (how == 0 || how == 3) {
        size_t blockSize = std::min<size_t>(131072, window);
        ParseOpts po{window, dict.size(), minMatch, explicitD, blockSize, (bool)t.chance(40)};
        // KNOWN FINDING KF-C17-prefix-validate (known_findings.jsonl): with validateSequences=1 the validator takes the dictionary
        // size from cctx->prefixDict, which ZSTD_CCtx_init_compressStream2 has already cleared, so valid matches into a
        // ZSTD_CCtx_refPrefix prefix are refused. That exact shape (prefix + validation + matches into the prefix) is excluded
        // by construction: the parser then sees no dictionary; everything else about prefixes stays in the search.
        std::vector<uint8_t> parse_dict = dict;
        if (dk == 2 && validate) { po.dictSize = 0; parse_dict.clear(); c.label("excluded:KF-C17-prefix-validate"); }
        unsigned crossing = 0, dictMatches = 0;
        std::vector<ZSTD_Sequence> seqs = random_parse(t, parse_dict, x, po, &crossing, &dictMatches);
        if (how == 0) {
            setup();
            size_t n = ZSTD_compressSequences(k.c, dst.p, dst.n, seqs.data(), seqs.size(), x.data(), x.size());
            VF_CHECK(c, !ZSTD_isError(n), "a valid parse (%zu sequences, %u crossing 128 KiB, %u into the dictionary) was refused: %s", seqs.size(), crossing, dictMatches, ZSTD_getErrorName(n));
            decode_check(dst.p, n, "own parse");
            c.label("own_parse");
            if (crossing) c.label("matches_crossing_block_edge");
            if (dictMatches) c.label("parses_with_dictionary_matches");
            c.nontrivial = seqs.size() > 2 && (crossing || dictMatches || x.size() > 131072 || po.repHeavy);
            return;
        }
        // ---- corrupted lists: one field of one sequence, with validation on ----
        int kind = (int)t.weighted({3, 3, 2, 2, 2, 3});
        bool definitely_invalid = false;
        std::string what;
        std::vector<ZSTD_Sequence> bad = seqs;
        // positions of each sequence's match start
        std::vector<size_t> starts(bad.size()); { size_t p = 0; for (size_t i = 0; i < bad.size(); i++) { p += bad[i].litLength; starts[i] = p; p += bad[i].matchLength; } }
        std::vector<size_t> real; for (size_t i = 0; i < bad.size(); i++) if (bad[i].matchLength) real.push_back(i);
        if (kind <= 2 && real.empty()) kind = 5;
        if (kind == 0) {          // offset beyond all history, even counted at the match end
            size_t i = real[t.range(0, real.size() - 1)];
            size_t endp = starts[i] + bad[i].matchLength;
            bad[i].offset = (unsigned)(endp + dict.size() + 1 + t.range(0, 1000));
            definitely_invalid = true; what = "offset beyond all available history";
        } else if (kind == 1) {   // offset beyond the history available at the START of the match (but not at its end)
            size_t i = real[t.range(0, real.size() - 1)];
            size_t sp = starts[i], endp = sp + bad[i].matchLength;
            if (sp <= window && endp <= window) { bad[i].offset = (unsigned)(sp + dict.size() + 1 + t.range(0, bad[i].matchLength - 1)); definitely_invalid = bad[i].offset > sp + dict.size(); what = "offset beyond the history available at the start of its match"; }
        } else if (kind == 2) {   // match shorter than the minimum
            size_t i = real[t.range(0, real.size() - 1)];
            unsigned ml = (unsigned)t.range(1, 2);
            bad[i].litLength += bad[i].matchLength - ml; bad[i].matchLength = ml;   // sums still cover the source
            definitely_invalid = true; what = "matchLength below the format minimum of 3";
        } else if (kind == 3 && explicitD) {   // block lengths that disagree with the source: last delimiter claims more literals than remain
            bad.back().litLength += 1 + (unsigned)t.range(0, 100000);
            definitely_invalid = true; what = "block lengths exceed the source";
        } else if (kind == 4 && explicitD && bad.size() >= 2) {   // missing final delimiter
            bad.pop_back();
            if (!bad.empty() && bad.back().matchLength != 0) { definitely_invalid = true; what = "explicit-delimiter list without a final delimiter"; }
        } else {   // fully arbitrary array: memory safety only
            size_t ns = (size_t)t.range(0, 300);
            bad.resize(ns);
            for (auto& s : bad) { s.offset = (unsigned)t.range(0, t.flip() ? 70 : 0xFFFFFFFFu); s.litLength = (unsigned)t.range(0, t.flip() ? 50 : 200000); s.matchLength = (unsigned)t.range(0, t.flip() ? 50 : 200000); s.rep = (unsigned)t.range(0, 3);
                // offset 0 with a non-zero matchLength is outside every documented shape; the library only asserts on it (debug builds),
                // so it is not generated: an offset of 0 always comes with matchLength 0 (a delimiter / last-literals entry)
                if (s.offset == 0) s.matchLength = 0;
                // delimiter-free mode documents that the array contains no delimiters at all (only asserts guard that): none generated
                if (!explicitD && s.offset == 0) s.offset = 1; }
            what = "arbitrary array";
        }
        // KF-C17-empty-source (open finding): with an EMPTY source ZSTD_compressSequences emits the empty frame without looking at
        // the sequence list at all, so an invalid list is accepted there (harmlessly: the frame decodes to the empty source).
        // That exact shape is excluded from the "must be refused" demand and counted.
        if (x.empty() && definitely_invalid) { definitely_invalid = false; c.label("excluded:KF-C17-empty-source"); }
        c.note("corruption kind=%d (%s) nseq=%zu; ", kind, what.c_str(), bad.size());
        if (getenv("VF_TRACE")) { size_t p = 0; for (size_t i = 0; i < bad.size() && i < 400; i++) { fprintf(stderr, "seq[%zu] @%zu (of %u ll %u ml %u)\n", i, p, bad[i].offset, bad[i].litLength, bad[i].matchLength); p += bad[i].litLength + bad[i].matchLength; } }
        setup();
        vf::Buf sb(bad.data(), bad.size() * sizeof(ZSTD_Sequence));   // exact-size: reading past the array is an ASan report
        size_t n = ZSTD_compressSequences(k.c, dst.p, dst.n, (const ZSTD_Sequence*)sb.p, bad.size(), x.data(), x.size());
        if (definitely_invalid) {
            VF_CHECK(c, ZSTD_isError(n), "validateSequences=1 and the list has %s, but ZSTD_compressSequences succeeded (%zu bytes)", what.c_str(), n);
            c.label("invalid_lists_refused:" + what);
        } else if (!ZSTD_isError(n)) {
            // accepted: whatever it is, nothing may have been read or written out of bounds (ASan); a frame that decodes must decode in bounds
            std::vector<uint8_t> back(x.size() + 1);
            ZSTD_DCtx_reset(k.d, ZSTD_reset_session_and_parameters);
            if (dk == 1) ZSTD_DCtx_loadDictionary_advanced(k.d, dict.data(), dict.size(), ZSTD_dlm_byRef, ZSTD_dct_rawContent);
            if (dk == 2) ZSTD_DCtx_refPrefix(k.d, dict.data(), dict.size());
            (void)ZSTD_decompressDCtx(k.d, back.data(), back.size(), dst.p, n);
            c.label("lists_accepted:" + what);
        } else c.label("lists_refused:" + what);
        c.label("corrupted_lists");
        c.nontrivial = definitely_invalid;
        return;
    }
    if (how == 1) {
        // the library's own extracted sequences, fed back
        std::vector<ZSTD_Sequence> seqs(ZSTD_sequenceBound(x.size()) + 8);
        ZSTD_CCtx_reset(k.c, ZSTD_reset_session_and_parameters);
        int glvl = (int)t.irange(1, 12);
        ZSTD_CCtx_setParameter(k.c, ZSTD_c_compressionLevel, glvl);
        ZSTD_CCtx_setParameter(k.c, ZSTD_c_windowLog, wl);
        size_t ns = ZSTD_generateSequences(k.c, seqs.data(), seqs.size(), x.data(), x.size());
        if (ZSTD_isError(ns)) c.discard("generateSequences_gave_up");   // documented as not guaranteed to succeed
        seqs.resize(ns);
        bool merged = t.flip();
        if (merged) { ns = ZSTD_mergeBlockDelimiters(seqs.data(), seqs.size()); seqs.resize(ns); explicitD = false; } else explicitD = true;
        unsigned mm = 3; for (auto& s : seqs) (void)s;
        minMatch = mm;
        setup();
        size_t n = ZSTD_compressSequences(k.c, dst.p, dst.n, seqs.data(), seqs.size(), x.data(), x.size());
        VF_CHECK(c, !ZSTD_isError(n), "sequences extracted by ZSTD_generateSequences(level %d)%s were refused: %s", glvl, merged ? " after mergeBlockDelimiters" : "", ZSTD_getErrorName(n));
        decode_check(dst.p, n, "extracted parse");
        c.label(merged ? "extracted_parse_merged" : "extracted_parse_delimited");
        c.nontrivial = seqs.size() > 2;
        return;
    }
    // block-level sequence producer (documented: no dictionary, no LDM, no MT)
    {
        ZSTD_CCtx_reset(k.c, ZSTD_reset_session_and_parameters);
        ZSTD_CCtx_setParameter(k.c, ZSTD_c_compressionLevel, lvl);
        ZSTD_CCtx_setParameter(k.c, ZSTD_c_windowLog, wl);
        ZSTD_CCtx_setParameter(k.c, ZSTD_c_validateSequences, validate);
        ZSTD_CCtx_setParameter(k.c, ZSTD_c_checksumFlag, 1);
        ZSTD_CCtx_setParameter(k.c, ZSTD_c_enableLongDistanceMatching, ZSTD_ps_disable);
        int fail_mode = (int)t.weighted({5, 2, 2, 3});   // valid parse | fails at once | fails on the 2nd block | returns corrupted lists
        int fallback = (int)t.range(0, 1);
        if (fail_mode == 3) ZSTD_CCtx_setParameter(k.c, ZSTD_c_validateSequences, 1);   // memory safety of arbitrary arrays is promised with validation on
        ZSTD_CCtx_setParameter(k.c, ZSTD_c_enableSeqProducerFallback, fallback);
        ProducerState st{&x, 3, fail_mode, 0, &t};
        ZSTD_registerSequenceProducer(k.c, &st, producer);
        size_t n;
        if (t.flip()) n = ZSTD_compress2(k.c, dst.p, dst.n, x.data(), x.size());
        else {
            ZSTD_inBuffer in = {x.data(), x.size(), 0}; ZSTD_outBuffer ob = {dst.p, dst.n, 0};
            size_t r = ZSTD_compressStream2(k.c, &ob, &in, ZSTD_e_continue);
            for (unsigned g = 0; g < 100000 && !ZSTD_isError(r); g++) { r = ZSTD_compressStream2(k.c, &ob, &in, ZSTD_e_end); if (r == 0) break; }
            n = ZSTD_isError(r) ? r : ob.pos;
        }
        bool producer_failed = st.calls > 0 && (fail_mode == 1 || (fail_mode == 2 && st.calls >= 2));
        if (fail_mode == 3) {
            // arbitrary arrays from a producer: handled memory-safely (ASan is the judge); a frame, if one comes out, decodes in bounds
            if (!ZSTD_isError(n)) { std::vector<uint8_t> back(x.size() + 1); ZSTD_DCtx_reset(k.d, ZSTD_reset_session_and_parameters); (void)ZSTD_decompressDCtx(k.d, back.data(), back.size(), dst.p, n); c.label("corrupting_producer_accepted"); }
            else c.label("corrupting_producer_refused");
            c.nontrivial = st.calls > 0;
            return;
        }
        if (producer_failed && !fallback) {
            VF_CHECK(c, ZSTD_isError(n) && ZSTD_getErrorCode(n) == ZSTD_error_sequenceProducer_failed, "the producer reported failure and fallback is off, but the call returned %s", ZSTD_isError(n) ? ZSTD_getErrorName(n) : "success");
            c.label("producer_failure_fails_the_call");
        } else {
            VF_CHECK(c, !ZSTD_isError(n), "block-level producer (fail_mode %d, fallback %d, %u calls): %s", fail_mode, fallback, st.calls, ZSTD_getErrorName(n));
            dk = 0; dict.clear();
            decode_check(dst.p, n, "producer parse");
            c.label(producer_failed ? "producer_failure_fell_back" : "producer_parse");
        }
        c.nontrivial = st.calls > 0;
    }
}
