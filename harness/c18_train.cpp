// C18 - dictionary training yields a usable dictionary or an error, never a bad one.
#define ZSTD_STATIC_LINKING_ONLY
#define ZDICT_STATIC_LINKING_ONLY
#include "zstd.h"
#include "zstd_errors.h"
#include "zdict.h"
#include "vf.h"
#include "../gen/content.hpp"

const char* vf_property_id() { return "C18"; }
static bool g_thorough = false, g_tsan = false;
void vf_setup() { const char* e = getenv("VERIF_TIER"); g_thorough = e && !strcmp(e, "thorough"); g_tsan = getenv("VF_TSAN_ARM") != nullptr; }

enum Algo { A_TRAIN = 0, A_COVER, A_FASTCOVER, A_OPT_COVER, A_OPT_FASTCOVER, A_LEGACY, A_FINALIZE, A_ADD_ENTROPY, A_N };
static const char* algo_name[] = {"trainFromBuffer", "cover", "fastCover", "optimizeCover", "optimizeFastCover", "legacy", "finalizeDictionary", "addEntropyTablesFromBuffer"};

struct Samples { std::vector<uint8_t> buf; std::vector<size_t> sizes; std::string desc; };

static Samples gen_samples(vf::Tape& t) {
    Samples s;
    int shape = (int)t.weighted({5, 2, 2, 2, 2, 2});
    unsigned n;
    switch (t.weighted({2, 3, 4, 2})) { case 0: n = (unsigned)t.range(0, 4); break; case 1: n = (unsigned)t.range(5, 20); break; case 2: n = (unsigned)t.range(21, 300); break; default: n = (unsigned)t.range(301, g_thorough ? 2000 : 800); break; }
    size_t maxEach;
    switch (t.weighted({2, 3, 3, 1})) { case 0: maxEach = 8; break; case 1: maxEach = 64; break; case 2: maxEach = 1500; break; default: maxEach = 30000; break; }
    gen::Xs x(t.raw() + 41);
    static const char* fields[] = {"GET /api/v1/items?id=", " HTTP/1.1\r\nHost: ", "example.org\r\n", "{\"user\":\"", "\",\"ts\":", "}\n", "ERROR ", "INFO ", "connection reset by peer", "0123456789"};
    unsigned emptyFirst = shape == 4 ? (unsigned)t.range(1, n ? n : 1) : 0;
    std::vector<uint8_t> identical;
    if (shape == 3) { size_t l = (size_t)t.range(0, maxEach); for (size_t i = 0; i < l; i++) identical.push_back((uint8_t)('a' + x.next() % 20)); }
    size_t total = 0;
    for (unsigned i = 0; i < n && total < (g_thorough ? (2u << 20) : (400u << 10)); i++) {
        size_t len = (i < emptyFirst) ? 0 : (size_t)(x.next() % (maxEach + 1));
        size_t start = s.buf.size();
        if (shape == 3) { s.buf.insert(s.buf.end(), identical.begin(), identical.end()); len = identical.size(); }
        else while (s.buf.size() - start < len) {
            if (shape == 0 || shape == 4) { const char* f = fields[x.next() % 10]; for (; *f && s.buf.size() - start < len; f++) s.buf.push_back((uint8_t)*f); if (s.buf.size() - start < len) s.buf.push_back((uint8_t)('0' + x.next() % 10)); }
            else if (shape == 1) s.buf.push_back((uint8_t)('a' + x.next() % 2));        // tiny alphabet
            else if (shape == 2) s.buf.push_back((uint8_t)x.next());                    // noise
            else s.buf.push_back((uint8_t)(i & 1 ? 'x' : 'y'));                         // shape 5: periodic, one byte per sample
        }
        s.buf.resize(start + len);
        s.sizes.push_back(len);
        total += len;
    }
    static const char* shapes[] = {"records", "2-symbol alphabet", "noise", "all identical", "first samples empty", "single-byte runs"};
    char b[160]; snprintf(b, sizeof b, "samples{n=%zu total=%zu maxEach=%zu shape=%s}", s.sizes.size(), s.buf.size(), maxEach, shapes[shape]);
    s.desc = b;
    return s;
}

static size_t run_algo(int algo, vf::Tape& t, void* dict, size_t cap, const Samples& s, std::string* pdesc, unsigned threads, ZDICT_params_t zp, uint64_t pseed) {
    gen::Xs px(pseed);   // parameter choices come from a seed so that a second run gets identical parameters
    // exact-size heap blocks: one byte read past the samples, or one entry past the sizes array, is an ASan report
    vf::Buf sbuf(s.buf.data(), s.buf.size());
    vf::Buf zbuf((const uint8_t*)s.sizes.data(), s.sizes.size() * sizeof(size_t));
    const void* sb = s.buf.empty() ? (const void*)"" : (const void*)sbuf.p;
    static const size_t zero_sizes[1] = {0};
    const size_t* sz = s.sizes.empty() ? zero_sizes : (const size_t*)zbuf.p;
    unsigned n = (unsigned)s.sizes.size();
    char b[200];
    (void)t;
    switch (algo) {
        case A_TRAIN: *pdesc = "default"; return ZDICT_trainFromBuffer(dict, cap, sb, sz, n);
        case A_COVER: case A_OPT_COVER: {
            ZDICT_cover_params_t p; memset(&p, 0, sizeof p);
            unsigned dchoice[] = {6, 8, 0, 1, 16, 40};
            p.d = dchoice[px.next() % 6]; p.k = (px.next() % 8 == 0) ? px.next() % 8 : p.d + px.next() % 2000;   // includes documented-invalid d > k, k = 0
            p.steps = px.next() % 6; p.nbThreads = threads; p.splitPoint = (px.next() % 3 == 0) ? 0.0 : (double)(1 + px.next() % 100) / 100.0; p.shrinkDict = px.next() % 2; p.shrinkDictMaxRegression = px.next() % 5; p.zParams = zp;
            snprintf(b, sizeof b, "k=%u d=%u steps=%u threads=%u split=%.2f shrink=%u", p.k, p.d, p.steps, p.nbThreads, p.splitPoint, p.shrinkDict); *pdesc = b;
            if (algo == A_COVER) return ZDICT_trainFromBuffer_cover(dict, cap, sb, sz, n, p);
            if (px.next() % 2) { p.k = 0; p.d = 0; }   // optimiser picks
            return ZDICT_optimizeTrainFromBuffer_cover(dict, cap, sb, sz, n, &p);
        }
        case A_FASTCOVER: case A_OPT_FASTCOVER: {
            ZDICT_fastCover_params_t p; memset(&p, 0, sizeof p);
            unsigned dchoice[] = {6, 8, 0, 7, 16};
            p.d = dchoice[px.next() % 5]; p.k = (px.next() % 8 == 0) ? px.next() % 8 : p.d + px.next() % 2000;
            p.f = px.next() % 24; p.accel = px.next() % 12; p.steps = px.next() % 6; p.nbThreads = threads; p.splitPoint = (px.next() % 3 == 0) ? 0.0 : (double)(1 + px.next() % 100) / 100.0; p.shrinkDict = px.next() % 2; p.zParams = zp;
            snprintf(b, sizeof b, "k=%u d=%u f=%u accel=%u steps=%u threads=%u split=%.2f shrink=%u", p.k, p.d, p.f, p.accel, p.steps, p.nbThreads, p.splitPoint, p.shrinkDict); *pdesc = b;
            if (algo == A_FASTCOVER) return ZDICT_trainFromBuffer_fastCover(dict, cap, sb, sz, n, p);
            if (px.next() % 2) { p.k = 0; p.d = 0; }
            return ZDICT_optimizeTrainFromBuffer_fastCover(dict, cap, sb, sz, n, &p);
        }
        case A_LEGACY: {
            ZDICT_legacy_params_t p; memset(&p, 0, sizeof p); p.selectivityLevel = px.next() % 12; p.zParams = zp;
            snprintf(b, sizeof b, "selectivity=%u", p.selectivityLevel); *pdesc = b;
            return ZDICT_trainFromBuffer_legacy(dict, cap, sb, sz, n, p);
        }
        case A_FINALIZE: {
            size_t cl = px.next() % 3 == 0 ? px.next() % 9 : px.next() % 5000;
            std::vector<uint8_t> content(cl + 1); for (auto& q : content) q = (uint8_t)('a' + px.next() % 17);
            snprintf(b, sizeof b, "content=%zu", cl); *pdesc = b;
            return ZDICT_finalizeDictionary(dict, cap, content.data(), cl, sb, sz, n, zp);
        }
        default: {
            // content placed at the end of the buffer, as the function documents
            size_t cl = std::min<size_t>(cap, px.next() % 3000);
            uint8_t* d8 = (uint8_t*)dict;
            for (size_t i = 0; i < cl; i++) d8[cap - cl + i] = (uint8_t)('a' + px.next() % 17);
            snprintf(b, sizeof b, "content=%zu", cl); *pdesc = b;
            return ZDICT_addEntropyTablesFromBuffer(dict, cl, cap, sb, sz, n);
        }
    }
}

void vf_case(vf::Ctx& c) {
    vf::Tape& t = c.t;
    Samples s = gen_samples(t);
    int algo = g_tsan ? (int)t.pick<int>({A_OPT_COVER, A_OPT_FASTCOVER}) : (int)t.weighted({3, 3, 4, 2, 2, 2, 3, 2});
    size_t cap;
    switch (t.weighted({1, 2, 3, 4, 1})) { case 0: cap = 0; break; case 1: cap = (size_t)t.range(1, 255); break; case 2: cap = (size_t)t.range(256, 2000); break; case 3: cap = (size_t)t.range(2001, 112640); break; default: cap = (size_t)t.range(112641, 1u << 20); break; }
    unsigned threads = g_tsan ? (unsigned)t.range(2, 4) : (unsigned)t.weighted({3, 3, 1, 1});   // 0/1 = single-threaded
    ZDICT_params_t zp; memset(&zp, 0, sizeof zp);
    zp.compressionLevel = (int)t.irange(-3, 12); zp.dictID = t.flip() ? (unsigned)t.range(0, 0xFFFFFFFFu) : 0;
    uint64_t pseed = ((uint64_t)t.raw() << 16) | t.raw();
    vf::Buf dict(cap);   // exact-size heap block: one byte past the capacity is an ASan report
    std::string pdesc;
    size_t r = run_algo(algo, t, dict.p, cap, s, &pdesc, threads, zp, pseed);
    c.note("%s(%s) cap=%zu level=%d dictID=%u %s", algo_name[algo], pdesc.c_str(), cap, zp.compressionLevel, zp.dictID, s.desc.c_str());
    c.label(std::string("algo:") + algo_name[algo]);
    if (ZDICT_isError(r)) { c.label(std::string("error:") + algo_name[algo]); c.nontrivial = s.sizes.size() >= 1; return; }
    if (r == 0) { c.label("no_dictionary(0)"); return; }
    VF_CHECK(c, r <= cap, "%s returned %zu for a capacity of %zu", algo_name[algo], r, cap);
    // usable: both sides load it, the ID is non-zero and consistent, the header parses, every sample round-trips
    ZSTD_CDict* cd = ZSTD_createCDict(dict.p, r, 3);
    ZSTD_DDict* dd = ZSTD_createDDict(dict.p, r);
    struct G { ZSTD_CDict* c; ZSTD_DDict* d; ~G() { ZSTD_freeCDict(c); ZSTD_freeDDict(d); } } g{cd, dd};
    VF_CHECK(c, cd != nullptr, "%s returned a %zu-byte dictionary that ZSTD_createCDict refuses", algo_name[algo], r);
    VF_CHECK(c, dd != nullptr, "%s returned a %zu-byte dictionary that ZSTD_createDDict refuses", algo_name[algo], r);
    {
        ZSTD_CCtx* cc = ZSTD_createCCtx(); size_t lr = ZSTD_CCtx_loadDictionary_advanced(cc, dict.p, r, ZSTD_dlm_byRef, ZSTD_dct_fullDict); ZSTD_freeCCtx(cc);
        VF_CHECK(c, !ZSTD_isError(lr), "%s returned a dictionary that is not a structurally valid (fullDict) dictionary for the compressor: %s", algo_name[algo], ZSTD_getErrorName(lr));
        ZSTD_DCtx* dc = ZSTD_createDCtx(); lr = ZSTD_DCtx_loadDictionary_advanced(dc, dict.p, r, ZSTD_dlm_byRef, ZSTD_dct_fullDict); ZSTD_freeDCtx(dc);
        VF_CHECK(c, !ZSTD_isError(lr), "%s returned a dictionary that is not a structurally valid (fullDict) dictionary for the decompressor: %s", algo_name[algo], ZSTD_getErrorName(lr));
    }
    unsigned id1 = ZDICT_getDictID(dict.p, r), id2 = ZSTD_getDictID_fromDict(dict.p, r), id3 = ZSTD_getDictID_fromCDict(cd), id4 = ZSTD_getDictID_fromDDict(dd);
    VF_CHECK(c, id1 != 0, "%s returned a dictionary whose ID is 0", algo_name[algo]);
    VF_CHECK(c, id1 == id2 && id2 == id3 && id3 == id4, "dictionary ID queries disagree: ZDICT %u, fromDict %u, fromCDict %u, fromDDict %u", id1, id2, id3, id4);
    if (zp.dictID && algo != A_TRAIN && algo != A_ADD_ENTROPY) VF_CHECK(c, id1 == zp.dictID, "requested dictID %u, dictionary carries %u", zp.dictID, id1);
    size_t hs = ZDICT_getDictHeaderSize(dict.p, r);
    VF_CHECK(c, !ZDICT_isError(hs) && hs <= r, "ZDICT_getDictHeaderSize on the returned dictionary: %s", ZDICT_isError(hs) ? ZDICT_getErrorName(hs) : "beyond the dictionary");
    ZSTD_CCtx* cc = ZSTD_createCCtx(); ZSTD_DCtx* dc = ZSTD_createDCtx();
    struct G2 { ZSTD_CCtx* c; ZSTD_DCtx* d; ~G2() { ZSTD_freeCCtx(c); ZSTD_freeDCtx(d); } } g2{cc, dc};
    size_t off = 0; unsigned checked = 0;
    for (size_t i = 0; i < s.sizes.size(); i++) {
        size_t len = s.sizes[i];
        if (i < 200 || (i % 7) == 0) {
            std::vector<uint8_t> out(ZSTD_compressBound(len) + 16), back(len + 1);
            size_t n = ZSTD_compress_usingCDict(cc, out.data(), out.size(), s.buf.data() + off, len, cd);
            VF_CHECK(c, !ZSTD_isError(n), "sample %zu does not compress with the trained dictionary: %s", i, ZSTD_getErrorName(n));
            size_t d = ZSTD_decompress_usingDDict(dc, back.data(), back.size(), out.data(), n, dd);
            VF_CHECK(c, !ZSTD_isError(d) && d == len && (len == 0 || !memcmp(back.data(), s.buf.data() + off, len)), "sample %zu does not round-trip with the trained dictionary: %s", i, ZSTD_isError(d) ? ZSTD_getErrorName(d) : "content differs");
            checked++;
        }
        off += len;
    }
    // a single-threaded run with the same inputs and parameters returns the same dictionary
    if (threads <= 1 && !g_tsan) {
        vf::Buf dict2(cap);
        std::string p2;
        size_t r2 = run_algo(algo, t, dict2.p, cap, s, &p2, threads, zp, pseed);
        VF_CHECK(c, r2 == r && !memcmp(dict.p, dict2.p, r), "two single-threaded runs of %s with identical inputs and parameters returned different dictionaries (%zu vs %zu bytes)", algo_name[algo], r, ZDICT_isError(r2) ? 0 : r2);
        c.label("determinism_checked");
    }
    c.label(std::string("trained:") + algo_name[algo]);
    c.maxi("samples_roundtripped_max", checked);
    c.nontrivial = true;
}

// fuzz arm: bytes are the samples; control words at the end choose cut points, capacity and algorithm
void vf_fuzz_case(vf::Ctx& c) {
    vf::Tape& t = c.t;
    int algo = (int)t.range_back(0, A_N - 1);
    size_t cap = (size_t)t.range_back(0, 20000);
    unsigned nb = (unsigned)t.range_back(0, 64);
    uint64_t pseed = t.range_back(0, 0xFFFF);
    unsigned each = (unsigned)t.range_back(0, 300);
    Samples s;
    s.buf = t.rest_bytes();
    size_t left = s.buf.size();
    gen::Xs x(pseed + 5);
    for (unsigned i = 0; i < nb && left; i++) { size_t l = std::min<size_t>(left, each ? x.next() % (each + 1) : 0); s.sizes.push_back(l); left -= l; }
    size_t used = 0; for (size_t l : s.sizes) used += l;
    s.buf.resize(used);
    ZDICT_params_t zp; memset(&zp, 0, sizeof zp);
    vf::Buf dict(cap);
    std::string pd;
    vf::Buf sb(s.buf.data(), s.buf.size());   // exact-size samples buffer
    Samples s2; s2.buf.assign(sb.p, sb.p + sb.n); s2.sizes = s.sizes;
    size_t r = run_algo(algo, t, dict.p, cap, s2, &pd, 1, zp, pseed);
    if (!ZDICT_isError(r) && r != 0) {
        VF_CHECK(c, r <= cap, "returned %zu for capacity %zu", r, cap);
        ZSTD_CDict* cd = ZSTD_createCDict(dict.p, r, 3); ZSTD_DDict* dd = ZSTD_createDDict(dict.p, r);
        bool ok = cd && dd && ZDICT_getDictID(dict.p, r) != 0;
        ZSTD_freeCDict(cd); ZSTD_freeDDict(dd);
        VF_CHECK(c, ok, "%s returned an unusable dictionary (%zu bytes)", algo_name[algo], r);
        c.nontrivial = true;
    }
}
