// C19 - the command-line tool never loses or silently damages user data.
// A case = one CLI invocation from a grammar + the files it works on. The CLI (built from the current tree) is run
// once to completion under ptrace (counting system-call entries N), then once per kill point k = 1..N in a fresh copy
// of the directory, SIGKILLed right before its k-th system call. After every run the file-system state is judged.
#include "stream_engine.hpp"
#include <sys/ptrace.h>
#include <sys/wait.h>
#include <sys/stat.h>
#include <sys/types.h>
#include <fcntl.h>
#include <unistd.h>
#include <signal.h>
#include <time.h>
#include <dirent.h>
#include <map>
#include <set>
#include <optional>
#include <algorithm>

const char* vf_property_id() { return "C19"; }
static bool g_thorough = false;
static std::string g_cli, g_base;
void vf_setup() {
    const char* e = getenv("VERIF_TIER"); g_thorough = e && !strcmp(e, "thorough");
    const char* c = getenv("VF_ZSTD_CLI"); if (!c) { fprintf(stderr, "VF_ZSTD_CLI not set\n"); exit(2); } g_cli = c;
    const char* v = getenv("VERIF_DIR"); char b[512]; snprintf(b, sizeof b, "%s/build/tmp/c19-%d", v ? v : "/verif", (int)getpid()); g_base = b;
    std::string cmd = "mkdir -p '" + g_base + "'"; if (system(cmd.c_str())) exit(2);
    atexit([] { std::string c2 = "rm -rf '" + g_base + "'"; if (system(c2.c_str())) {} });
}

// ---------- tiny file helpers ----------
static void rm_rf(const std::string& p) {
    DIR* d = opendir(p.c_str());
    if (d) { struct dirent* e; while ((e = readdir(d))) { if (!strcmp(e->d_name, ".") || !strcmp(e->d_name, "..")) continue; rm_rf(p + "/" + e->d_name); } closedir(d); rmdir(p.c_str()); }
    else unlink(p.c_str());
}
static bool put(const std::string& p, const std::vector<uint8_t>& v) {
    int fd = open(p.c_str(), O_WRONLY | O_CREAT | O_TRUNC, 0644); if (fd < 0) return false;
    size_t o = 0; while (o < v.size()) { ssize_t w = write(fd, v.data() + o, v.size() - o); if (w <= 0) { close(fd); return false; } o += (size_t)w; }
    close(fd); return true;
}
static std::optional<std::vector<uint8_t>> get(const std::string& p) {
    struct stat st; if (lstat(p.c_str(), &st) || !S_ISREG(st.st_mode)) return std::nullopt;
    int fd = open(p.c_str(), O_RDONLY); if (fd < 0) return std::nullopt;
    std::vector<uint8_t> v((size_t)st.st_size); size_t o = 0;
    while (o < v.size()) { ssize_t r = read(fd, v.data() + o, v.size() - o); if (r <= 0) break; o += (size_t)r; }
    v.resize(o); close(fd); return v;
}

// ---------- the k-th-system-call killer ----------
static volatile pid_t g_child = 0; static volatile sig_atomic_t g_watchdog = 0;
static void on_alarm(int) { g_watchdog = 1; if (g_child > 0) kill(g_child, SIGKILL); }
struct Run { int status = -1; bool exited = false; int exit_code = -1; bool killed_by_us = false; unsigned long nsys = 0; bool watchdog = false; };
static Run run_traced(const std::vector<std::string>& argv, const std::string& cwd, unsigned long kill_at) {
    Run R;
    pid_t child = fork();
    if (child == 0) {
        if (chdir(cwd.c_str())) _exit(120);
        int n = open("/dev/null", O_RDONLY); dup2(n, 0);
        int o = open("../stdout.cap", O_WRONLY | O_CREAT | O_TRUNC, 0644); dup2(o, 1);
        int e = open("../stderr.cap", O_WRONLY | O_CREAT | O_TRUNC, 0644); dup2(e, 2);
        for (int fd = 3; fd < 64; fd++) close(fd);
        std::vector<char*> av; for (auto& s : argv) av.push_back((char*)s.c_str()); av.push_back(nullptr);
        char* envp[] = {(char*)"LC_ALL=C", nullptr};
        ptrace(PTRACE_TRACEME, 0, 0, 0);
        raise(SIGSTOP);
        execve(av[0], av.data(), envp);
        _exit(121);
    }
    int st = 0;
    if (waitpid(child, &st, __WALL) != child || !WIFSTOPPED(st)) { R.status = st; return R; }
    ptrace(PTRACE_SETOPTIONS, child, 0, PTRACE_O_TRACESYSGOOD | PTRACE_O_TRACECLONE | PTRACE_O_TRACEFORK | PTRACE_O_TRACEVFORK | PTRACE_O_TRACEEXEC | PTRACE_O_EXITKILL);
    std::map<pid_t, bool> in_sys; std::set<pid_t> known; known.insert(child);
    bool counting = false;   // system calls are counted from the exec of the CLI on
    ptrace(PTRACE_SYSCALL, child, 0, 0);
    g_child = child; g_watchdog = 0; signal(SIGALRM, on_alarm); alarm(120);
    for (;;) {
        pid_t tid = waitpid(-1, &st, __WALL);
        if (tid < 0) { if (errno == EINTR) continue; break; }   // ECHILD: no tracee left
        if (WIFEXITED(st) || WIFSIGNALED(st)) {
            known.erase(tid);
            if (tid == child) { R.status = st; R.exited = WIFEXITED(st); if (R.exited) R.exit_code = WEXITSTATUS(st); }
            continue;
        }
        if (!WIFSTOPPED(st)) continue;
        int sig = WSTOPSIG(st); unsigned ev = (unsigned)st >> 16;
        int deliver = 0;
        if (sig == (SIGTRAP | 0x80)) {
            bool& ins = in_sys[tid]; ins = !ins;
            if (ins && counting) {
                R.nsys++;
                if (kill_at && R.nsys == kill_at && !R.killed_by_us) { R.killed_by_us = true; kill(child, SIGKILL); continue; }
            }
        } else if (ev) {
            if (ev == PTRACE_EVENT_EXEC) { counting = true; in_sys.clear(); in_sys[tid] = true; /* we are inside execve: the next stop is its exit */ }
        } else if (sig == SIGSTOP && !known.count(tid)) { known.insert(tid); }   // attach stop of a new thread
        else if (sig == SIGTRAP) { /* exec trap without TRACEEXEC */ }
        else deliver = sig;
        known.insert(tid);
        ptrace(PTRACE_SYSCALL, tid, 0, deliver);
    }
    alarm(0); g_child = 0; R.watchdog = g_watchdog != 0;
    return R;
}

// ---------- the library's verdict ----------
static bool lib_decode(const std::vector<uint8_t>& z, const std::vector<uint8_t>& dict, std::vector<uint8_t>& out) {
    out.clear();
    if (z.empty()) return false;
    ZSTD_DCtx* d = ZSTD_createDCtx(); ZSTD_DCtx_setParameter(d, ZSTD_d_windowLogMax, 27);
    if (!dict.empty()) ZSTD_DCtx_loadDictionary(d, dict.data(), dict.size());
    ZSTD_inBuffer in = {z.data(), z.size(), 0};
    std::vector<uint8_t> ob(1 << 17); size_t r = 0; bool ok = true;
    for (;;) {
        ZSTD_outBuffer o = {ob.data(), ob.size(), 0};
        size_t ip = in.pos;
        r = ZSTD_decompressStream(d, &o, &in);
        if (ZSTD_isError(r)) { ok = false; break; }
        out.insert(out.end(), ob.data(), ob.data() + o.pos);
        if (r == 0 && in.pos == in.size) break;                                     // last frame complete and flushed, nothing follows
        if (in.pos == in.size && o.pos < o.size) { ok = false; break; }             // input ends inside a frame
        if (in.pos == ip && o.pos == 0) { ok = false; break; }
    }
    ZSTD_freeDCtx(d);
    return ok;
}

struct InFile {
    std::string name, dst;           // relative to the work directory; dst empty: no file destination (-c, -t)
    std::vector<uint8_t> bytes;      // what the user has on disk
    bool lib_ok = true;              // decompress/test: the library accepts the file
    std::vector<uint8_t> plain;      // decompress: what the library decodes; compress: == bytes
    bool pre = false; std::vector<uint8_t> pre_bytes;   // destination exists before the run
    bool refused = false;            // the tool must refuse this operation (no -f over an existing destination, same file)
};
struct Inv {
    int mode = 0;                    // 0 compress 1 decompress 2 test
    int outkind = 0;                 // 0 per-file 1 -o F 2 -c 3 --output-dir-flat
    bool rm = false, force = false; std::string ofile, odir;
    std::vector<std::string> args;   // everything after argv[0]
    std::vector<InFile> files; std::vector<uint8_t> dict; std::string dictname;
    bool single_dst = false; bool abort_all = false;
    std::string str() const { std::string s; for (auto& a : args) s += a + " "; return s; }
};

static void materialize(const Inv& I, const std::string& w) {
    rm_rf(w); mkdir(w.c_str(), 0755); mkdir((w + "/sub").c_str(), 0755);
    if (!I.odir.empty() && I.odir == "outd") mkdir((w + "/outd").c_str(), 0755);
    for (auto& f : I.files) put(w + "/" + f.name, f.bytes);
    if (!I.dictname.empty()) put(w + "/" + I.dictname, I.dict);
    std::set<std::string> done;
    for (auto& f : I.files) if (f.pre && !f.dst.empty() && !done.count(f.dst)) { done.insert(f.dst); put(w + "/" + f.dst, f.pre_bytes); }
}

// a content with the zero-run layouts the sparse writer cares about (segments of 32 KiB scanned by words of 8 bytes)
static std::vector<uint8_t> gen_file_content(vf::Tape& t, gen::ContentInfo* ci) {
    std::vector<uint8_t> x = gen::gen_content(t, g_thorough ? (1u << 20) : (400u << 10), ci);
    unsigned k = (unsigned)t.weighted({5, 2, 2, 2, 1});
    if (k == 1) { size_t z = (size_t)t.range(1, 17); x.insert(x.end(), z, 0); }                                  // short zero tail
    if (k == 2) { size_t z = (size_t)t.pick<size_t>({32768, 32767, 32769, 65536, 40000, 8}) + (size_t)t.range(0, 9); x.insert(x.end(), z, 0); if (t.flip()) x.push_back((uint8_t)t.range(1, 255)); }
    if (k == 3) { size_t at = x.empty() ? 0 : (size_t)t.range(0, x.size() - 1); size_t z = (size_t)t.range(1, 70000); x.insert(x.begin() + at, z, 0); }   // hole in the middle
    if (k == 4) { x.assign((size_t)t.range(0, 100000), 0); if (t.flip()) { x.push_back(1); size_t z = (size_t)t.range(0, 9); x.insert(x.end(), z, 0); } }   // (almost) all zeros
    if (t.chance(25) && !x.empty()) { size_t want = (x.size() & ~(size_t)7) + (size_t)t.range(0, 7); while (x.size() < want) x.push_back(t.flip() ? 0 : 'q'); if (t.flip()) x.back() = 0; }
    return x;
}

static std::vector<uint8_t> lib_compress(vf::Tape& t, const std::vector<uint8_t>& x, const std::vector<uint8_t>& dict) {
    std::vector<uint8_t> z;
    unsigned nfr = (unsigned)t.weighted({6, 2, 1}) + 1;
    size_t pos = 0;
    ZSTD_CCtx* c = ZSTD_createCCtx();
    for (unsigned i = 0; i < nfr; i++) {
        size_t len = (i + 1 == nfr) ? x.size() - pos : (size_t)t.range(0, x.size() - pos);
        ZSTD_CCtx_reset(c, ZSTD_reset_session_and_parameters);
        ZSTD_CCtx_setParameter(c, ZSTD_c_compressionLevel, (int)t.irange(-2, 6));
        ZSTD_CCtx_setParameter(c, ZSTD_c_checksumFlag, (int)t.range(0, 1));
        if (t.chance(30)) ZSTD_CCtx_setParameter(c, ZSTD_c_windowLog, (int)t.range(10, 20));
        if (!dict.empty()) ZSTD_CCtx_loadDictionary(c, dict.data(), dict.size());
        std::vector<uint8_t> o(ZSTD_compressBound(len));
        size_t r = ZSTD_compress2(c, o.data(), o.size(), x.data() + pos, len);
        if (ZSTD_isError(r)) { ZSTD_freeCCtx(c); return {}; }
        z.insert(z.end(), o.data(), o.data() + r);
        pos += len;
        if (t.chance(15)) { uint8_t sk[12] = {0x50, 0x2A, 0x4D, 0x18, 4, 0, 0, 0, 'v', 'e', 'r', 'f'}; sk[0] = (uint8_t)(0x50 + t.range(0, 15)); z.insert(z.end(), sk, sk + 12); }
    }
    ZSTD_freeCCtx(c);
    return z;
}

static std::vector<uint8_t> tb(vf::Tape& t, size_t n) { std::vector<uint8_t> v(n); if (n) t.bytes(v.data(), n); return v; }
static std::string base_of(const std::string& p) { size_t s = p.rfind('/'); return s == std::string::npos ? p : p.substr(s + 1); }

static void gen_invocation(vf::Ctx& c, Inv& I) {
    vf::Tape& t = c.t;
    I.mode = (int)t.weighted({4, 5, 1});
    unsigned nf = (unsigned)t.weighted({6, 3, 1}) + 1;
    I.outkind = I.mode == 2 ? 0 : (int)t.weighted({6, 2, 1, 1});
    I.rm = t.chance(45); I.force = t.chance(40);
    if (I.outkind == 2 && I.mode == 1) I.force = false;   // -d -c -f is the documented pass-through mode: not a decoder verdict
    // every option is chosen before any content so that short tapes still vary them
    std::vector<std::string> opts;
    {
        int verbosity = (int)t.weighted({6, 2, 1});
        if (verbosity == 1) opts.push_back("-q"); if (verbosity == 2) opts.push_back("-v");
        if (I.mode == 1) opts.push_back(t.flip() ? "-d" : "--decompress");
        if (I.mode == 2) opts.push_back("-t");
        if (I.mode == 0) {
            int lv = (int)t.pick<int>({1, 1, 3, 3, 5, 9, 19});
            if (lv != 3 || t.flip()) opts.push_back("-" + std::to_string(lv));
            if (t.chance(20)) opts.push_back("--fast=" + std::to_string((int)t.range(1, 5)));
            if (t.chance(25)) opts.push_back(t.flip() ? "-T2" : "-T0");
            if (t.chance(15)) opts.push_back("--long=" + std::to_string((int)t.range(17, 24)));
            if (t.chance(15)) opts.push_back("--no-check");
            if (t.chance(10)) opts.push_back("--rsyncable");
            if (t.chance(10)) opts.push_back("-B" + std::to_string((int)t.range(1, 4) * 65536));
        } else if (t.chance(10)) opts.push_back("--long=27");
        if (I.rm) opts.push_back("--rm");
        if (I.force) opts.push_back("-f");
        unsigned sp = (unsigned)t.weighted({4, 3, 3}); if (sp == 1) opts.push_back("--sparse"); if (sp == 2) opts.push_back("--no-sparse"); c.label(sp == 1 ? "sparse_forced" : sp == 2 ? "sparse_off" : "sparse_default");
        unsigned as = (unsigned)t.weighted({6, 2, 2}); if (as == 1) opts.push_back("--asyncio"); if (as == 2) opts.push_back("--no-asyncio");
    }
    bool o_first = t.flip(), long_c = t.flip(), pre_single = t.chance(40);
    static const char* NAMES[] = {"alpha", "beta.dat", "sub/gamma", "de lta.txt", "sub/eps.bin"};
    if (t.chance(20)) { I.dict = gen::gen_content_sized(t, (size_t)t.range(64, 20000)); if (I.dict.size() >= 4 && I.dict[0] == 0x37 && I.dict[1] == 0xA4) I.dict[0] = 1; I.dictname = "the.dict"; }
    std::vector<int> order = {0, 1, 2, 3, 4};
    for (int i = 4; i > 0; i--) std::swap(order[i], order[(size_t)t.range(0, (uint64_t)i)]);
    for (unsigned i = 0; i < nf; i++) {
        InFile f; gen::ContentInfo ci;
        std::vector<uint8_t> x = gen_file_content(t, &ci);
        std::string nm = NAMES[order[i]];
        if (I.mode == 0) { f.name = nm; f.bytes = x; f.plain = x; }
        else {
            f.name = nm + ".zst";
            std::vector<uint8_t> z = lib_compress(t, x, I.dict);
            unsigned k = (unsigned)t.weighted({12, 3, 3, 2});
            if (k == 1 && z.size() > 1) z.resize((size_t)t.range(1, z.size() - 1));
            if (k == 2 && !z.empty()) z[(size_t)t.range(0, z.size() - 1)] ^= (uint8_t)(1u << t.range(0, 7));
            if (k == 3) { unsigned n = (unsigned)t.range(1, 9); for (unsigned j = 0; j < n; j++) z.push_back((uint8_t)t.range(0, 255)); }
            if (z.empty()) z.push_back(0x28);
            f.bytes = z;
            f.lib_ok = lib_decode(z, I.dict, f.plain);
            c.label(k == 0 ? "inputs_valid_zst" : "inputs_damaged_zst");
            if (!f.lib_ok) c.label("inputs_library_rejects");
        }
        I.files.push_back(f);
    }
    // destination names: the tool's documented naming, modelled here
    if (I.outkind == 1) { I.ofile = (nf == 1 && t.chance(10)) ? I.files[0].name : (t.flip() ? "out.bin" : "sub/out file"); I.single_dst = true; }
    if (I.outkind == 3) I.odir = t.flip() ? "outd" : "newd";
    for (auto& f : I.files) {
        if (I.mode == 2 || I.outkind == 2) { f.dst = ""; continue; }
        std::string d = I.mode == 0 ? f.name + ".zst" : f.name.substr(0, f.name.size() - 4);
        if (I.outkind == 1) d = I.ofile;
        if (I.outkind == 3) d = I.odir + "/" + base_of(d);
        f.dst = d;
    }
    // pre-existing destinations
    std::vector<uint8_t> pre_single_bytes = tb(t, (size_t)t.range(0, 3000));
    for (auto& f : I.files) {
        if (f.dst.empty()) continue;
        if (I.odir == "newd") { f.refused = true; continue; }   // the target directory must exist (zstd.1): opening the destination fails
        bool same = false; for (auto& g : I.files) if (g.name == f.dst) same = true;
        if (same) { f.refused = true; continue; }
        if (I.single_dst) { f.pre = pre_single; f.pre_bytes = pre_single_bytes; }
        else if (t.chance(40)) { f.pre = true; f.pre_bytes = t.flip() ? gen::gen_content_sized(t, (size_t)t.range(0, 5000)) : tb(t, (size_t)t.range(0, 64)); }
        if (f.pre && !I.force) f.refused = true;
    }
    if (I.single_dst && I.files.size() > 1 && !I.force) I.abort_all = true;   // "Concatenating multiple processed inputs ... Aborting"
    // command line
    auto& a = I.args; a = opts;
    if (!I.dictname.empty()) { a.push_back("-D"); a.push_back(I.dictname); }
    if (I.outkind == 2) a.push_back(long_c ? "--stdout" : "-c");
    if (I.outkind == 3) a.push_back("--output-dir-flat=" + I.odir);
    if (I.outkind == 1 && o_first) { a.push_back("-o"); a.push_back(I.ofile); }
    for (auto& f : I.files) a.push_back(f.name);
    if (I.outkind == 1 && !o_first) { a.push_back("-o"); a.push_back(I.ofile); }
}

struct Verdict { std::string bad; bool dst_seen = false; };
// judge the directory after a run. killed: the process was SIGKILLed (artefacts may remain, exit status means nothing)
static Verdict judge(const Inv& I, const std::string& w, bool killed, const Run& R) {
    Verdict V; char b[600];
    // 0. the dictionary is an input: never touched
    if (!I.dictname.empty()) { auto d = get(w + "/" + I.dictname); if (!d || *d != I.dict) { V.bad = "the dictionary file was modified or removed"; return V; } }
    // concatenated expectations for single destinations / stdout
    std::vector<uint8_t> cat_plain; bool all_ok = true;
    for (auto& f : I.files) { cat_plain.insert(cat_plain.end(), f.plain.begin(), f.plain.end()); if (!f.lib_ok) all_ok = false; }
    std::map<std::string, std::optional<std::vector<uint8_t>>> dsts;
    for (auto& f : I.files) if (!f.dst.empty() && !dsts.count(f.dst)) dsts[f.dst] = get(w + "/" + f.dst);
    auto dst_reproduces = [&](const InFile& f) -> bool {
        if (f.dst.empty()) return false;
        auto& d = dsts[f.dst]; if (!d) return false;
        const std::vector<uint8_t>& want = I.single_dst ? cat_plain : f.plain;
        if (I.single_dst && !all_ok) return false;
        if (I.mode == 0) { std::vector<uint8_t> back; return lib_decode(*d, I.dict, back) ? back == want : (want.empty() && false); }
        return f.lib_ok && *d == want;
    };
    bool expect_fail = I.abort_all;
    for (auto& f : I.files) {
        auto s = get(w + "/" + f.name);
        bool src_ok = s && *s == f.bytes;
        bool same_as_dst = !f.dst.empty() && f.dst == f.name;
        bool dok = dst_reproduces(f);
        if (!f.dst.empty() && dsts[f.dst] && !(f.pre && *dsts[f.dst] == f.pre_bytes)) V.dst_seen = true;
        bool may_remove = I.rm && !f.dst.empty() && !(I.single_dst && I.files.size() > 1) && !same_as_dst;
        // 1. the source is intact, or (with --rm) a complete destination reproduces it
        if (!src_ok && !(may_remove && dok)) {
            snprintf(b, sizeof b, "source '%s' is %s and the destination '%s' %s", f.name.c_str(), s ? "modified" : "gone", f.dst.c_str(),
                     f.dst.empty() ? "(none)" : !dsts[f.dst] ? "does not exist" : "does not reproduce it");
            V.bad = b; return V;
        }
        // 2. an existing file is never overwritten unless forced
        if (f.pre && !I.force && !same_as_dst) { auto& d = dsts[f.dst]; if (!d || *d != f.pre_bytes) { snprintf(b, sizeof b, "existing file '%s' was %s without -f", f.dst.c_str(), d ? "overwritten" : "removed"); V.bad = b; return V; } }
        bool fails = I.abort_all || f.refused || (I.mode != 0 && !f.lib_ok);
        if (fails) expect_fail = true;
    }
    if (killed) return V;
    // 3. verdict of a complete run == the library's verdict (plus the refusals the tool documents)
    if (!R.exited) { snprintf(b, sizeof b, "the tool died with signal %d", WIFSIGNALED(R.status) ? WTERMSIG(R.status) : -1); V.bad = b; return V; }
    if ((R.exit_code != 0) != expect_fail) {
        snprintf(b, sizeof b, "exit status %d but %s", R.exit_code, expect_fail ? "an input is rejected by the library / an overwrite had to be refused" : "the library accepts every input and nothing had to be refused");
        V.bad = b; return V;
    }
    for (auto& f : I.files) {
        bool fails = I.abort_all || f.refused || (I.mode != 0 && !f.lib_ok);
        if (f.dst.empty()) continue;
        auto& d = dsts[f.dst];
        if (I.single_dst && I.files.size() > 1) {
            // one destination for several inputs: complete iff every input succeeded
            if (!expect_fail && !dst_reproduces(f)) { V.bad = "the single destination '" + f.dst + "' does not reproduce the concatenated inputs"; return V; }
            continue;
        }
        if (fails) {
            // 4. a failed operation leaves no output file behind (a refused one leaves what was there)
            if (f.refused) { if (f.pre && (!d || *d != f.pre_bytes)) { V.bad = "refused destination '" + f.dst + "' changed"; return V; } if (!f.pre && f.dst != f.name && d) { V.bad = "refused operation left '" + f.dst + "'"; return V; } }
            else if (d) { snprintf(b, sizeof b, "the operation on '%s' failed but left an output file '%s' (%zu bytes) behind", f.name.c_str(), f.dst.c_str(), d->size()); V.bad = b; return V; }
        } else {
            // 5. success: the destination is complete: exactly the library's bytes (size included: sparse or not)
            if (!dst_reproduces(f)) {
                snprintf(b, sizeof b, "'%s' succeeded but '%s' %s (%zu bytes, expected %zu)", f.name.c_str(), f.dst.c_str(), d ? (I.mode == 0 ? "does not decode to the source" : "differs from what the library decodes") : "does not exist", d ? d->size() : 0, f.plain.size());
                V.bad = b; return V;
            }
        }
    }
    if (I.outkind == 2 && !expect_fail) {
        auto o = get(w + "/../stdout.cap");
        std::vector<uint8_t> back; bool ok = o.has_value();
        if (ok) { if (I.mode == 0) ok = lib_decode(*o, I.dict, back) ? back == cat_plain : (cat_plain.empty() && o->empty()); else ok = *o == cat_plain; }
        if (!ok) { V.bad = "standard output does not reproduce the inputs"; return V; }
    }
    return V;
}

void vf_case(vf::Ctx& c) {
    vf::Tape& t = c.t;
    Inv I; gen_invocation(c, I);
    std::string w = g_base + "/w";
    if (const char* dump = getenv("VF_C19_DUMP")) materialize(I, dump);   // triage aid: the generated directory
    std::vector<std::string> argv; argv.push_back(g_cli); for (auto& a : I.args) argv.push_back(a);
    size_t tot = 0; for (auto& f : I.files) tot += f.bytes.size();
    c.note("zstd %s| files=%zu bytes=%zu pre=%d dict=%zu ", I.str().c_str(), I.files.size(), tot, (int)std::count_if(I.files.begin(), I.files.end(), [](const InFile& f) { return f.pre; }), I.dict.size());
    // the complete run
    materialize(I, w);
    Run R0 = run_traced(argv, w, 0);
    VF_CHECK(c, !R0.watchdog, "the tool did not terminate within 120 s");
    Verdict V0 = judge(I, w, false, R0);
    if (!V0.bad.empty()) {
        auto e = get(g_base + "/stderr.cap"); std::string es = e ? std::string(e->begin(), e->end()).substr(0, 300) : "";
        c.fail("complete run (exit %d): %s [stderr: %s]", R0.exit_code, V0.bad.c_str(), es.c_str());
    }
    c.label(R0.exit_code == 0 ? "complete_runs_exit_0" : "complete_runs_exit_nonzero");
    c.maxi("max_syscalls_in_a_run", R0.nsys);
    // every kill point
    unsigned long N = R0.nsys, step = 1, kills = 0, kills_with_dst = 0;
    unsigned long cap = g_thorough ? 4000 : 700;
    if (N > cap) { step = (N + cap - 1) / cap; c.label("kill_points_subsampled_cases"); }
    unsigned long off = step > 1 ? (unsigned long)t.range(0, step - 1) : 0;
    for (unsigned long k = 1 + off; k <= N + 1; k += step) {
        materialize(I, w);
        Run R = run_traced(argv, w, k);
        VF_CHECK(c, !R.watchdog, "the tool did not terminate within 120 s");
        bool killed = R.killed_by_us;
        Verdict V = judge(I, w, killed, R);
        kills += killed; if (killed && V.dst_seen) kills_with_dst++;
        if (!V.bad.empty()) c.fail("%s at system call %lu of %lu: %s", killed ? "killed" : "complete run", k, N, V.bad.c_str());
    }
    c.label("kill_points_executed", kills);
    c.label("kill_points_with_destination_on_disk", kills_with_dst);
    rm_rf(w);
    c.nontrivial = (I.rm || std::any_of(I.files.begin(), I.files.end(), [](const InFile& f) { return f.pre; })) && kills_with_dst > 0;
}
