// C20 - seekable format: any byte range reads back exactly.
#include "stream_engine.hpp"
#include "conformance.hpp"
extern "C" {
#include "zstd_seekable.h"
}

const char* vf_property_id() { return "C20"; }
static bool g_thorough = false;
void vf_setup() { const char* e = getenv("VERIF_TIER"); g_thorough = e && !strcmp(e, "thorough"); }

struct Archive { std::vector<uint8_t> bytes; std::vector<size_t> cSizes, dSizes; unsigned explicitEnds = 0, outFull = 0, emptyFrames = 0; };

// exact-size heap blocks (ASan redzone at the capacity) for small capacities; one shared block for the big ones
struct OutBuf { vf::Buf* own = nullptr; uint8_t* p; static std::vector<uint8_t>& big() { static std::vector<uint8_t> b(700000); return b; }
    explicit OutBuf(size_t cap) { if (cap <= 8192) { own = new vf::Buf(cap); p = own->p; } else p = big().data(); } ~OutBuf() { delete own; } };

static Archive make_archive(vf::Ctx& c, const std::vector<uint8_t>& x, unsigned maxFrame, int checksum, int level) {
    vf::Tape& t = c.t;
    Archive a;
    ZSTD_seekable_CStream* zcs = ZSTD_seekable_createCStream();
    struct G { ZSTD_seekable_CStream* z; ~G() { ZSTD_seekable_freeCStream(z); } } g{zcs};
    size_t r = ZSTD_seekable_initCStream(zcs, level, checksum, maxFrame);
    VF_CHECK(c, !ZSTD_isError(r), "seekable_initCStream(maxFrameSize=%u): %s", maxFrame, ZSTD_getErrorName(r));
    size_t pos = 0;
    unsigned calls = 0;
    auto emit = [&](OutBuf& ob, ZSTD_outBuffer& o) { a.bytes.insert(a.bytes.end(), ob.p, ob.p + o.pos); };
    while (pos < x.size()) {
        size_t n = std::min(x.size() - pos, std::max<size_t>(1, se::gen_chunk(t, 131072, false)));
        ZSTD_inBuffer in = {x.data() + pos, n, 0};
        unsigned stall = 0;
        while (in.pos < in.size) {
            size_t cap = std::max<size_t>(1, se::gen_chunk(t, 131072, false));
            if (t.exhausted()) cap = 1u << 17;
            OutBuf ob(cap); ZSTD_outBuffer o = {ob.p, cap, 0};
            size_t ip0 = in.pos;
            r = ZSTD_seekable_compressStream(zcs, &o, &in);
            VF_CHECK(c, !ZSTD_isError(r), "seekable_compressStream: %s", ZSTD_getErrorName(r));
            emit(ob, o);
            if (o.pos == cap) a.outFull++;
            if (in.pos == ip0 && o.pos == 0) VF_CHECK(c, ++stall < 8, "seekable_compressStream makes no progress"); else stall = 0;
            VF_CHECK(c, ++calls < 4000000, "seekable compression does not terminate");
        }
        pos += n;
        unsigned ends = t.chance(15) ? (t.chance(30) ? 2u : 1u) : 0u;   // explicit frame end; twice in a row = an EMPTY frame in the middle of the archive
        for (unsigned e = 0; e < ends; e++) {
            if (e) a.emptyFrames++;
            for (unsigned gd = 0;; gd++) {
                size_t cap = std::max<size_t>(1, se::gen_chunk(t, 131072, false));
                if (t.exhausted()) cap = 1u << 17;
                OutBuf ob(cap); ZSTD_outBuffer o = {ob.p, cap, 0};
                r = ZSTD_seekable_endFrame(zcs, &o);
                VF_CHECK(c, !ZSTD_isError(r), "seekable_endFrame: %s", ZSTD_getErrorName(r));
                emit(ob, o);
                if (o.pos == cap && r) a.outFull++;
                if (r == 0) break;
                VF_CHECK(c, gd < 1000000, "endFrame does not converge");
            }
            a.explicitEnds++;
        }
    }
    for (unsigned gd = 0;; gd++) {
        size_t cap = std::max<size_t>(1, se::gen_chunk(t, 131072, false));
        if (t.exhausted()) cap = 1u << 17;
        OutBuf ob(cap); ZSTD_outBuffer o = {ob.p, cap, 0};
        r = ZSTD_seekable_endStream(zcs, &o);
        VF_CHECK(c, !ZSTD_isError(r), "seekable_endStream: %s", ZSTD_getErrorName(r));
        emit(ob, o);
        if (o.pos == cap && r) a.outFull++;
        if (r == 0) break;
        VF_CHECK(c, gd < 1000000, "endStream does not converge");
    }
    return a;
}

// layout by walking the archive with the regular frame inspector
static void walk_layout(vf::Ctx& c, Archive& a, size_t total) {
    size_t off = 0;
    bool sawTable = false;
    size_t dsum = 0;
    while (off < a.bytes.size()) {
        size_t fs = ZSTD_findFrameCompressedSize(a.bytes.data() + off, a.bytes.size() - off);
        VF_CHECK(c, !ZSTD_isError(fs), "archive is not a sequence of frames at offset %zu: %s", off, ZSTD_getErrorName(fs));
        if (ZSTD_isSkippableFrame(a.bytes.data() + off, a.bytes.size() - off)) {
            VF_CHECK(c, off + fs == a.bytes.size(), "a skippable frame that is not the last frame");
            sawTable = true;
        } else {
            unsigned long long ds = ZSTD_getFrameContentSize(a.bytes.data() + off, fs);
            std::vector<uint8_t> tmp(200000);
            size_t d;
            if (ds == ZSTD_CONTENTSIZE_UNKNOWN || ds == ZSTD_CONTENTSIZE_ERROR) {
                // decode to learn the size
                ZSTD_DCtx* dc = ZSTD_createDCtx(); ZSTD_inBuffer in = {a.bytes.data() + off, fs, 0}; d = 0;
                for (;;) { ZSTD_outBuffer o = {tmp.data(), tmp.size(), 0}; size_t r = ZSTD_decompressStream(dc, &o, &in); if (ZSTD_isError(r)) { ZSTD_freeDCtx(dc); c.fail("frame at %zu does not decode: %s", off, ZSTD_getErrorName(r)); } d += o.pos; if (r == 0) break; }
                ZSTD_freeDCtx(dc);
            } else d = (size_t)ds;
            a.cSizes.push_back(fs); a.dSizes.push_back(d); dsum += d;
        }
        off += fs;
    }
    VF_CHECK(c, sawTable, "the archive does not end with a skippable frame (seek table)");
    VF_CHECK(c, dsum == total, "frames regenerate %zu bytes, content has %zu", dsum, total);
}

struct CB { const std::vector<uint8_t>* data; long long pos; int failRead; int failSeek; unsigned reads; vf::Tape* t; };
static int cb_read(void* op, void* buf, size_t n) {
    CB* k = (CB*)op;
    k->reads++;
    if (k->failRead > 0 && (int)k->reads == k->failRead) return -1;
    if (k->pos < 0 || (size_t)k->pos + n > k->data->size()) return -1;   // premature EOF is an error
    memcpy(buf, k->data->data() + k->pos, n);
    k->pos += (long long)n;
    return 0;
}
static int cb_seek(void* op, long long offset, int origin) {
    CB* k = (CB*)op;
    if (k->failSeek > 0 && --k->failSeek == 0) return -1;
    long long np = origin == SEEK_SET ? offset : origin == SEEK_END ? (long long)k->data->size() + offset : k->pos + offset;
    if (np < 0 || np > (long long)k->data->size()) return -1;
    k->pos = np;
    return 0;
}

void vf_case(vf::Ctx& c) {
    vf::Tape& t = c.t;
    unsigned maxFrame;
    switch (t.weighted({1, 1, 4, 3, 1})) { case 0: maxFrame = 1; break; case 1: maxFrame = 2; break; case 2: maxFrame = (unsigned)t.range(3, 5000); break; case 3: maxFrame = (unsigned)t.range(5001, 300000); break; default: maxFrame = 0x40000000u; break; }
    int checksum = (int)t.range(0, 1);
    int level = (int)t.irange(1, 7);
    size_t maxsz = maxFrame <= 2 ? 1500 : (maxFrame < 200 ? 20000 : (g_thorough ? (2u << 20) : (500u << 10)));
    gen::ContentInfo ci;
    std::vector<uint8_t> x;
    if (t.chance(4)) {
        // archives whose seek table is larger than the reader's 128 KiB parsing buffer: frame counts around the points where a
        // table entry (8 bytes, 12 with checksums) straddles a buffer refill
        maxFrame = (unsigned)t.range(1, 3);
        size_t nfr = t.flip() ? (size_t)t.pick<size_t>({10921, 10922, 10923, 16383, 16384, 16385, 21844, 21845, 21846, 32767, 32768, 32769}) : (size_t)t.range(10000, 45000);
        x = gen::gen_content_sized(t, nfr * maxFrame - (size_t)t.range(0, maxFrame - 1), &ci);
        level = 1;
        c.label("archives_with_seek_table_beyond_one_buffer");
    } else x = gen::gen_content(t, maxsz, &ci);
    Archive a = make_archive(c, x, maxFrame, checksum, level);
    c.note("maxFrameSize=%u checksum=%d level=%d %s archive=%zuB explicitEnds=%u; ", maxFrame, checksum, level, ci.summary().c_str(), a.bytes.size(), a.explicitEnds);
    if (a.emptyFrames) c.label("archives_with_empty_middle_frame");

    if (const char* dd = getenv("VF_DUMP_CORPUS")) {
        if (a.bytes.size() <= 3000 && a.bytes.size() > 20) {
            char nm[256]; snprintf(nm, sizeof nm, "%s/a-%016llx", dd, (unsigned long long)vf::fnv64(a.bytes.data(), a.bytes.size()));
            FILE* f = fopen(nm, "wb");
            if (f) { fwrite(a.bytes.data(), 1, a.bytes.size(), f); if (a.bytes.size() & 1) fputc(0, f); uint16_t ctl[3] = {0 /*access*/, 77 /*seed*/, 4 /*reads*/}; fwrite(ctl, 2, 3, f); fclose(f); }
        }
    }
    // (1) a regular decoder regenerates the whole content; R agrees
    {
        ZSTD_DCtx* d = ZSTD_createDCtx(); std::vector<uint8_t> back(x.size() + 1);
        size_t r = ZSTD_decompressDCtx(d, back.data(), back.size(), a.bytes.data(), a.bytes.size());
        ZSTD_freeDCtx(d);
        VF_CHECK(c, !ZSTD_isError(r) && r == x.size() && (x.empty() || !memcmp(back.data(), x.data(), r)), "a regular decoder does not regenerate the content from the seekable archive: %s", ZSTD_isError(r) ? ZSTD_getErrorName(r) : "content differs");
        conform::Expect ex; std::string v = conform::check(a.bytes.data(), a.bytes.size(), x.data(), x.size(), nullptr, 0, ex, nullptr);
        VF_CHECK(c, v.empty(), "independent decoder on the seekable archive: %s", v.c_str());
    }
    walk_layout(c, a, x.size());
    for (size_t i = 0; i < a.dSizes.size(); i++) if (maxFrame) VF_CHECK(c, a.dSizes[i] <= maxFrame, "frame %zu holds %zu bytes, maxFrameSize is %u", i, a.dSizes[i], maxFrame);

    // (2) seekable reader over memory / file / callbacks
    int access = (int)t.range(0, 2);
    ZSTD_seekable* zs = ZSTD_seekable_create();
    vf::Buf mem(a.bytes.data(), a.bytes.size());
    FILE* fp = nullptr;
    CB cb{&a.bytes, 0, 0, 0, 0, &t};
    struct G { ZSTD_seekable* z; FILE*& f; ~G() { ZSTD_seekable_free(z); if (f) fclose(f); } } g{zs, fp};
    size_t r;
    if (access == 0) r = ZSTD_seekable_initBuff(zs, mem.p, mem.n);
    else if (access == 1) { fp = tmpfile(); VF_CHECK(c, fp != nullptr, "tmpfile"); if (!a.bytes.empty()) fwrite(a.bytes.data(), 1, a.bytes.size(), fp); fflush(fp); r = ZSTD_seekable_initFile(zs, fp); }
    else { ZSTD_seekable_customFile cf = {&cb, cb_read, cb_seek}; r = ZSTD_seekable_initAdvanced(zs, cf); }
    VF_CHECK(c, !ZSTD_isError(r), "seekable init (access mode %d) on a well-formed archive: %s", access, ZSTD_getErrorName(r));
    unsigned nf = ZSTD_seekable_getNumFrames(zs);
    VF_CHECK(c, nf == a.cSizes.size(), "seek table lists %u frames, the archive has %zu", nf, a.cSizes.size());
    ZSTD_seekTable* st = ZSTD_seekTable_create_fromSeekable(zs);
    VF_CHECK(c, st != nullptr, "seekTable_create_fromSeekable failed");
    struct G2 { ZSTD_seekTable* s; ~G2() { ZSTD_seekTable_free(s); } } g2{st};
    VF_CHECK(c, ZSTD_seekTable_getNumFrames(st) == nf, "seek table copy has a different frame count");
    {
        unsigned long long co = 0, dofs = 0;
        for (unsigned i = 0; i < nf + 3; i++) {
            unsigned long long c1 = ZSTD_seekable_getFrameCompressedOffset(zs, i), d1 = ZSTD_seekable_getFrameDecompressedOffset(zs, i);
            size_t cs = ZSTD_seekable_getFrameCompressedSize(zs, i), dsz = ZSTD_seekable_getFrameDecompressedSize(zs, i);
            unsigned long long c2 = ZSTD_seekTable_getFrameCompressedOffset(st, i), d2 = ZSTD_seekTable_getFrameDecompressedOffset(st, i);
            size_t cs2 = ZSTD_seekTable_getFrameCompressedSize(st, i), ds2 = ZSTD_seekTable_getFrameDecompressedSize(st, i);
            if (i < nf) {
                VF_CHECK(c, c1 == co && d1 == dofs && cs == a.cSizes[i] && dsz == a.dSizes[i], "frame %u: seek table says (cOff %llu, dOff %llu, cSize %zu, dSize %zu), the archive layout is (%llu, %llu, %zu, %zu)", i, c1, d1, cs, dsz, co, dofs, a.cSizes[i], a.dSizes[i]);
                VF_CHECK(c, c2 == c1 && d2 == d1 && cs2 == cs && ds2 == dsz, "frame %u: the seek table copy disagrees with the seekable object", i);
                co += a.cSizes[i]; dofs += a.dSizes[i];
            } else {
                VF_CHECK(c, c1 == ZSTD_SEEKABLE_FRAMEINDEX_TOOLARGE && d1 == ZSTD_SEEKABLE_FRAMEINDEX_TOOLARGE && ZSTD_isError(cs) && ZSTD_isError(dsz), "frame index %u >= %u frames: accessors returned (%llu, %llu, %zu, %zu) instead of error values", i, nf, c1, d1, cs, dsz);
                VF_CHECK(c, c2 == ZSTD_SEEKABLE_FRAMEINDEX_TOOLARGE && d2 == ZSTD_SEEKABLE_FRAMEINDEX_TOOLARGE && ZSTD_isError(cs2) && ZSTD_isError(ds2), "frame index %u >= %u frames: seek table copy accessors did not return error values", i, nf);
            }
        }
        // offsetToFrameIndex agrees with the layout
        std::vector<unsigned long long> starts; { unsigned long long acc = 0; for (unsigned i = 0; i < nf; i++) { starts.push_back(acc); acc += a.dSizes[i]; } }
        for (unsigned k = 0; k < 24 && !x.empty(); k++) {
            // random positions, and the first byte of frames (where two table entries share an offset when a frame is empty)
            unsigned long long o = (k < 12 || starts.empty()) ? t.range(0, x.size() - 1) : starts[(size_t)t.range(0, starts.size() - 1)];
            if (o >= x.size()) continue;
            unsigned fi = ZSTD_seekable_offsetToFrameIndex(zs, o);
            unsigned long long acc = 0; unsigned want = 0;
            for (unsigned i = 0; i < nf; i++) { if (o < acc + a.dSizes[i]) { want = i; break; } acc += a.dSizes[i]; }
            VF_CHECK(c, fi == want && ZSTD_seekTable_offsetToFrameIndex(st, o) == want, "offsetToFrameIndex(%llu) = %u, layout says frame %u", o, fi, want);
        }
    }
    // read history
    unsigned nreads = (unsigned)t.range(1, 14);
    bool crossing = false;
    size_t lastEnd = 0;
    for (unsigned i = 0; i < nreads; i++) {
        unsigned long long off; size_t len;
        switch (t.weighted({3, 2, 2, 2, 1})) {
            case 0: off = x.empty() ? 0 : t.range(0, x.size()); len = (size_t)t.range(0, 5000); break;
            case 1: off = lastEnd; len = (size_t)t.range(0, 70000); break;                          // continue where the last read stopped (mid-frame)
            case 2: { unsigned fi = nf ? (unsigned)t.range(0, nf - 1) : 0; unsigned long long b = 0; for (unsigned j = 0; j <= fi && j < nf; j++) b += a.dSizes[j]; off = b > 3 ? b - t.range(0, 3) : 0; len = (size_t)t.range(0, 4000); break; }   // straddle a frame boundary
            case 3: off = lastEnd > 100 ? lastEnd - t.range(1, 100) : 0; len = (size_t)t.range(0, 300); break;   // backwards
            default: off = 0; len = x.size(); break;
        }
        if (off > x.size()) off = x.size();
        if (off + len > x.size()) len = x.size() - (size_t)off;
        vf::Buf out(len);
        if (access == 2 && t.chance(10)) { cb.failRead = (int)cb.reads + 1 + (int)t.range(0, 2); }
        bool seekInj = access == 2 && t.chance(10);
        if (seekInj) cb.failSeek = 1;   // the next seek fails once
        size_t got = ZSTD_seekable_decompress(zs, out.p, len, off);
        bool injected = (access == 2 && cb.failRead > 0 && (int)cb.reads >= cb.failRead) || (seekInj && cb.failSeek == 0);
        cb.failRead = 0; cb.failSeek = 0;
        if (injected && ZSTD_isError(got)) { c.label("callback_failure_reported"); continue; }   // the next read must still be right
        VF_CHECK(c, !ZSTD_isError(got), "read #%u (offset %llu, length %zu) through access mode %d failed: %s", i, off, len, access, ZSTD_getErrorName(got));
        VF_CHECK(c, got == len, "read #%u (offset %llu, length %zu) returned %zu bytes", i, off, len, got);
        VF_CHECK(c, len == 0 || !memcmp(out.p, x.data() + off, len), "read #%u (offset %llu, length %zu) returned wrong bytes", i, off, len);
        if (len) { unsigned f1 = ZSTD_seekable_offsetToFrameIndex(zs, off), f2 = ZSTD_seekable_offsetToFrameIndex(zs, off + len - 1); if (f1 != f2 && i > 0) crossing = true; }
        lastEnd = (size_t)off + len;
        c.label("reads");
    }
    // whole frames by index
    if (nf && t.flip()) {
        unsigned fi = (unsigned)t.range(0, nf - 1);
        vf::Buf out(a.dSizes[fi]);
        size_t got = ZSTD_seekable_decompressFrame(zs, out.p, out.n, fi);
        unsigned long long b = 0; for (unsigned j = 0; j < fi; j++) b += a.dSizes[j];
        VF_CHECK(c, !ZSTD_isError(got) && got == a.dSizes[fi] && (got == 0 || !memcmp(out.p, x.data() + b, got)), "decompressFrame(%u): %s", fi, ZSTD_isError(got) ? ZSTD_getErrorName(got) : "wrong bytes");
        size_t bad = ZSTD_seekable_decompressFrame(zs, out.p, out.n, nf + (unsigned)t.range(0, 2));
        VF_CHECK(c, ZSTD_isError(bad), "decompressFrame with an index past the table succeeded");
    }
    c.label(access == 0 ? "access:memory" : access == 1 ? "access:file" : "access:callbacks");
    c.maxi("max_frames", nf);
    if (a.outFull) c.label("archives_written_with_starved_output");
    c.nontrivial = nf >= 3 && crossing;
}

// corrupted archives: no sanitizer report, reads error or return bytes (memory safety)
void vf_fuzz_case(vf::Ctx& c) {
    vf::Tape& t = c.t;
    unsigned nreads = (unsigned)t.range_back(0, 6);
    uint64_t seed = t.range_back(0, 0xFFFF);
    int access = (int)t.range_back(0, 1);
    std::vector<uint8_t> bytes = t.rest_bytes();
    vf::Buf mem(bytes.data(), bytes.size());
    ZSTD_seekable* zs = ZSTD_seekable_create();
    CB cb{&bytes, 0, 0, 0, 0, &t};
    size_t r;
    if (access == 0) r = ZSTD_seekable_initBuff(zs, mem.p, mem.n);
    else { ZSTD_seekable_customFile cf = {&cb, cb_read, cb_seek}; r = ZSTD_seekable_initAdvanced(zs, cf); }
    if (!ZSTD_isError(r)) {
        unsigned nf = ZSTD_seekable_getNumFrames(zs);
        gen::Xs x(seed + 1);
        for (unsigned i = 0; i < nf + 2 && i < 40; i++) { (void)ZSTD_seekable_getFrameCompressedOffset(zs, i); (void)ZSTD_seekable_getFrameDecompressedOffset(zs, i); (void)ZSTD_seekable_getFrameCompressedSize(zs, i); (void)ZSTD_seekable_getFrameDecompressedSize(zs, i); }
        ZSTD_seekTable* st = ZSTD_seekTable_create_fromSeekable(zs);
        if (st) { for (unsigned i = 0; i < nf + 2 && i < 40; i++) { (void)ZSTD_seekTable_getFrameDecompressedSize(st, i); (void)ZSTD_seekTable_getFrameCompressedSize(st, i); } (void)ZSTD_seekTable_offsetToFrameIndex(st, x.next()); ZSTD_seekTable_free(st); }
        for (unsigned i = 0; i < nreads; i++) {
            size_t len = x.next() % 5000; unsigned long long off = x.next() % 200000;
            vf::Buf out(len);
            size_t got = ZSTD_seekable_decompress(zs, out.p, len, off);
            if (!ZSTD_isError(got)) VF_CHECK(c, got <= len, "seekable_decompress returned %zu for a %zu-byte destination", got, len);
            if (nf) { size_t g2 = ZSTD_seekable_decompressFrame(zs, out.p, len, x.next() % (nf + 1)); if (!ZSTD_isError(g2)) VF_CHECK(c, g2 <= len, "decompressFrame returned %zu for %zu", g2, len); }
        }
        c.nontrivial = nf > 0;
        c.label("table_accepted");
    }
    ZSTD_seekable_free(zs);
}
