// conformance.hpp - the C05 oracle: predicates over the event stream of the independent decoder R (oracle/edu).
#pragma once
#include "vf.h"
extern "C" {
#include "../oracle/edu/edu.h"
}
#include <vector>
#include <string>

namespace conform {

struct Expect {
    bool magicless = false;
    size_t maxBlockSize = 0;        // ZSTD_c_maxBlockSize in force (0: none)
    int expect_fcs = -1;            // 1: content size must be present, 0: must be absent, -1: either
    int expect_checksum = -1;
    long long expect_dictID = -1;   // -1 unknown; otherwise the value the header must carry (0 = no field)
    unsigned long long max_window = 0;   // windowLog in force: declared window must not exceed it (0: unknown)
};

struct FrameFacts {
    unsigned long long window = 0; bool has_fcs = false; unsigned long long fcs = 0; unsigned dict_id = 0; bool checksum = false; bool single_segment = false;
    unsigned nblocks = 0, n_comp = 0, n_rle = 0, n_raw = 0;
    unsigned long long nseq = 0, seq_from_dict = 0, seq_beyond_half_window = 0, max_offset = 0, seq_at_window = 0;
    unsigned treeless = 0, repeat_tables = 0, rle_tables = 0, fse_tables = 0, tiny_tail_candidates = 0;
    unsigned long long content = 0;
};

struct Collector {
    std::vector<FrameFacts> frames;
    std::string violation;          // first rule violated
    const Expect* ex = nullptr;
    FrameFacts* cur = nullptr;
    unsigned long long blockmax = 0;
    bool first_block_rle = false;
    void fail(const char* fmt, ...) __attribute__((format(printf, 2, 3))) {
        if (!violation.empty()) return;
        char b[400]; va_list ap; va_start(ap, fmt); vsnprintf(b, sizeof b, fmt, ap); va_end(ap); violation = b;
    }
};

static void on_event(void* opaque, const edu_event_t* ev) {
    Collector* k = (Collector*)opaque;
    switch (ev->kind) {
        case EDU_EV_FRAME_HEADER: {
            k->frames.emplace_back(); k->cur = &k->frames.back();
            FrameFacts& f = *k->cur;
            f.window = ev->window_size; f.has_fcs = ev->has_fcs; f.fcs = ev->fcs; f.dict_id = ev->dict_id; f.checksum = ev->checksum_flag; f.single_segment = ev->single_segment;
            if (ev->reserved_bit) k->fail("reserved bit set in the frame header descriptor");
            k->blockmax = std::min<unsigned long long>(131072, ev->window_size);
            if (k->ex->maxBlockSize) k->blockmax = std::min<unsigned long long>(k->blockmax, k->ex->maxBlockSize);
            k->first_block_rle = false;
            break;
        }
        case EDU_EV_BLOCK: {
            FrameFacts& f = *k->cur;
            f.nblocks++;
            if (ev->block_type == 0) f.n_raw++; else if (ev->block_type == 1) f.n_rle++; else f.n_comp++;
            if (ev->block_regen > k->blockmax) k->fail("block %u regenerates %zu bytes, limit is min(128 KiB, Window_Size %llu, maxBlockSize %zu)", ev->block_index, ev->block_regen, f.window, k->ex->maxBlockSize);
            if (ev->block_type != 1 && ev->block_size > k->blockmax) k->fail("block %u has Block_Size %zu, limit %llu", ev->block_index, ev->block_size, k->blockmax);
            // interoperability rules the compressor observes for old decoders (doc/decompressor_errata.md)
            if (ev->block_type == 2 && ev->block_size >= ev->block_regen) k->fail("Compressed_Block %u has Block_Size %zu >= regenerated size %zu (must be sent raw instead)", ev->block_index, ev->block_size, ev->block_regen);
            if (ev->block_index == 0 && ev->block_type == 1) k->first_block_rle = true;
            if (ev->block_index == 1 && k->first_block_rle) k->fail("the first block is an RLE block and the frame has more blocks (CLI <= v1.4.3 rejects)");
            break;
        }
        case EDU_EV_LITERALS: if (ev->lit_type == 3) k->cur->treeless++; break;
        case EDU_EV_TABLE: {
            if (ev->table_which <= 2) {
                if (ev->table_mode == 3) k->cur->repeat_tables++; else if (ev->table_mode == 1) k->cur->rle_tables++; else if (ev->table_mode == 2) k->cur->fse_tables++;
                if (ev->bytes_after_last_table) {
                    k->cur->tiny_tail_candidates++;
                    if (ev->bytes_after_last_table < 4) k->fail("last FSE table description starts %zu bytes before the end of the block (< 4: zstd <= 1.3.4 rejects)", ev->bytes_after_last_table);
                }
            }
            break;
        }
        case EDU_EV_SEQUENCE: {
            FrameFacts& f = *k->cur;
            f.nseq++;
            if (ev->from_dict) f.seq_from_dict++;
            if (ev->offset > f.max_offset) f.max_offset = ev->offset;
            if (ev->offset * 2 > f.window) f.seq_beyond_half_window++;
            if (ev->offset == f.window) f.seq_at_window++;
            break;
        }
        case EDU_EV_FRAME_END: k->cur->content = ev->content_size; break;
        default: break;
    }
}

// Runs strict R over `frames` (one or more concatenated frames), checks every C05 rule; fills facts.
// Returns "" when conformant; otherwise the rule violated. `dict_outside_spec` is set when R refuses only because the
// supplied dictionary itself is outside the specification (e.g. a 12-bit Huffman tree): then nothing is asserted.
inline std::string check(const uint8_t* frames, size_t n, const uint8_t* x, size_t xn, const uint8_t* dict, size_t dictn,
                         const Expect& ex, std::vector<FrameFacts>* facts, bool* dict_outside_spec = nullptr) {
    Collector k; k.ex = &ex;
    edu_opts_t o; memset(&o, 0, sizeof o);
    o.magicless = ex.magicless; o.strict = 1; o.max_window = 1ull << 31; o.cb = on_event; o.opaque = &k;
    vf::Buf out(xn + 16);
    edu_result_t r = edu_decompress(out.p, out.n, frames, n, dict, dictn, &o);
    if (dict_outside_spec) *dict_outside_spec = false;
    if (!r.ok) {
        if (strstr(r.err, "dictionary Huffman tree with Max_Number_of_Bits")) {
            if (dict_outside_spec) *dict_outside_spec = true;
            // the dictionary is not a spec-valid dictionary: fall back to the lenient decoder for the round trip only
            o.strict = 0; o.cb = nullptr;
            r = edu_decompress(out.p, out.n, frames, n, dict, dictn, &o);
            if (!r.ok) return std::string("independent decoder (lenient) rejects the frame: ") + r.err;
            if (r.produced != xn || (xn && memcmp(out.p, x, xn))) return "independent decoder regenerates different content";
            return "";
        }
        return std::string("independent strict decoder rejects the frame: ") + r.err;
    }
    if (r.consumed != n) return "independent decoder stopped before the end of the produced bytes";
    if (r.produced != xn) { char b[120]; snprintf(b, sizeof b, "independent decoder regenerates %zu bytes, input had %zu", r.produced, xn); return b; }
    if (xn && memcmp(out.p, x, xn)) { size_t i = 0; while (out.p[i] == x[i]) i++; char b[120]; snprintf(b, sizeof b, "independent decoder output differs from the input at offset %zu", i); return b; }
    if (!k.violation.empty()) return k.violation;
    for (auto& f : k.frames) {
        if (ex.expect_fcs == 1 && !f.has_fcs) return "content size absent although a single-pass entry point was used with default flags";
        if (ex.expect_fcs == 0 && f.has_fcs && !f.single_segment) return "content size present although contentSizeFlag=0 / size unknown";
        if (ex.expect_checksum >= 0 && (int)f.checksum != ex.expect_checksum) return "checksum flag in the header does not match the parameter";
        if (ex.expect_dictID >= 0 && (long long)f.dict_id != ex.expect_dictID) { char b[120]; snprintf(b, sizeof b, "header dictionary ID %u, expected %lld", f.dict_id, ex.expect_dictID); return b; }
        if (ex.max_window && f.window > ex.max_window && !f.single_segment) { char b[120]; snprintf(b, sizeof b, "declared window %llu exceeds windowLog in force (%llu)", f.window, ex.max_window); return b; }
    }
    if (facts) *facts = k.frames;
    return "";
}

}  // namespace conform
