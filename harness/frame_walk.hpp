// frame_walk.hpp - minimal independent walker over the frame/block layer of a
// Zstandard frame (header fields and block headers only; no entropy decoding).
// Written from doc/zstd_compression_format.md, shares no code with lib/.
#pragma once
#include <cstdint>
#include <cstddef>
#include <vector>

namespace fw {

struct Block { size_t hdr_off; unsigned type; size_t size; size_t csize; bool last; };
struct Frame {
    bool ok = false; bool skippable = false;
    size_t header_size = 0, total_size = 0;
    uint64_t window_size = 0; bool single_segment = false;
    bool has_fcs = false; uint64_t fcs = 0;
    bool has_checksum = false; uint32_t checksum = 0;
    uint32_t dict_id = 0; unsigned did_bytes = 0; bool reserved_bit = false;
    unsigned wlByte = 0;
    size_t fcs_off = 0; unsigned fcs_bytes = 0;
    std::vector<Block> blocks;
    unsigned n_raw = 0, n_rle = 0, n_comp = 0;
};

inline uint64_t rdle(const uint8_t* p, unsigned n) { uint64_t v = 0; for (unsigned i = 0; i < n; i++) v |= (uint64_t)p[i] << (8 * i); return v; }

// magicless: header starts at the frame header descriptor
inline Frame walk(const uint8_t* p, size_t n, bool magicless = false) {
    Frame f;
    size_t o = 0;
    if (!magicless) {
        if (n < 4) return f;
        uint32_t magic = (uint32_t)rdle(p, 4);
        if ((magic & 0xFFFFFFF0u) == 0x184D2A50u) {
            if (n < 8) return f;
            uint64_t sz = rdle(p + 4, 4);
            if (8 + sz > n) return f;
            f.skippable = true; f.ok = true; f.header_size = 8; f.total_size = 8 + (size_t)sz;
            return f;
        }
        if (magic != 0xFD2FB528u) return f;
        o = 4;
    }
    if (o >= n) return f;
    uint8_t fhd = p[o++];
    unsigned fcsFlag = fhd >> 6; f.single_segment = (fhd >> 5) & 1; f.reserved_bit = (fhd >> 3) & 1;
    f.has_checksum = (fhd >> 2) & 1; unsigned didFlag = fhd & 3;
    if (!f.single_segment) {
        if (o >= n) return f;
        uint8_t wd = p[o++];
        f.wlByte = wd;
        unsigned e = wd >> 3, m = wd & 7;
        uint64_t base = 1ull << (10 + e);
        f.window_size = base + (base / 8) * m;
    }
    static const unsigned didsz[4] = {0, 1, 2, 4};
    f.did_bytes = didsz[didFlag];
    if (o + f.did_bytes > n) return f;
    f.dict_id = (uint32_t)rdle(p + o, f.did_bytes); o += f.did_bytes;
    unsigned fcsBytes = fcsFlag == 0 ? (f.single_segment ? 1 : 0) : fcsFlag == 1 ? 2 : fcsFlag == 2 ? 4 : 8;
    if (o + fcsBytes > n) return f;
    f.fcs_off = o; f.fcs_bytes = fcsBytes;
    if (fcsBytes) { f.has_fcs = true; f.fcs = rdle(p + o, fcsBytes); if (fcsBytes == 2) f.fcs += 256; o += fcsBytes; }
    if (f.single_segment) f.window_size = f.fcs;
    f.header_size = o;
    for (;;) {
        if (o + 3 > n) return f;
        uint32_t bh = (uint32_t)rdle(p + o, 3);
        Block b; b.hdr_off = o; b.last = bh & 1; b.type = (bh >> 1) & 3; b.size = bh >> 3;
        if (b.type == 3) return f;
        b.csize = (b.type == 1) ? 1 : b.size;
        o += 3;
        if (o + b.csize > n) return f;
        o += b.csize;
        f.blocks.push_back(b);
        if (b.type == 0) f.n_raw++; else if (b.type == 1) f.n_rle++; else f.n_comp++;
        if (b.last) break;
    }
    if (f.has_checksum) { if (o + 4 > n) return f; f.checksum = (uint32_t)rdle(p + o, 4); o += 4; }
    f.total_size = o;
    f.ok = true;
    return f;
}

}  // namespace fw
