// framesynth.hpp - an ENCODER independent of lib/compress: builds specification-valid frames from a generated
// description, including shapes the bundled compressor never emits, and states the expected content itself.
// Written from doc/zstd_compression_format.md. Every frame it makes is cross-checked against the independent
// decoder R before the library sees it (a disagreement is a machinery bug, reported as such).
#pragma once
#include "vf.h"
extern "C" {
#include "../oracle/edu/edu.h"
#include "../oracle/xxh64.h"
}
#include <vector>
#include <string>
#include <algorithm>

namespace fsyn {

struct Field { uint64_t v; unsigned n; };
// Bit container of the format: fields are listed in DECODER READ ORDER; written so that the backward reader sees them in that order.
inline std::vector<uint8_t> pack_backward(const std::vector<Field>& readOrder) {
    std::vector<uint8_t> out;
    uint64_t acc = 0; unsigned nb = 0;
    auto add = [&](uint64_t v, unsigned n) { while (n) { unsigned take = std::min(n, 32u); acc |= (v & ((take == 64) ? ~0ull : ((1ull << take) - 1))) << nb; nb += take; v >>= take; n -= take; while (nb >= 8) { out.push_back((uint8_t)acc); acc >>= 8; nb -= 8; } } };
    for (size_t i = readOrder.size(); i-- > 0;) add(readOrder[i].v, readOrder[i].n);
    add(1, 1);   // final bit flag
    if (nb) out.push_back((uint8_t)acc);
    return out;
}

// ---- FSE decoding table from a normalised distribution (spec: "FSE decoding table") ----
struct FseTable { unsigned al; std::vector<uint8_t> sym, nbits; std::vector<uint16_t> base; };
inline unsigned hibit(uint32_t v) { unsigned r = 0; while (v >>= 1) r++; return r; }
inline FseTable build_fse(const std::vector<int>& norm, unsigned al) {
    FseTable t; t.al = al; size_t size = (size_t)1 << al;
    t.sym.assign(size, 0); t.nbits.assign(size, 0); t.base.assign(size, 0);
    std::vector<uint32_t> next(norm.size(), 0);
    size_t high = size - 1;
    for (size_t s = 0; s < norm.size(); s++) if (norm[s] == -1) { t.sym[high--] = (uint8_t)s; next[s] = 1; } else next[s] = (uint32_t)norm[s];
    size_t step = (size >> 1) + (size >> 3) + 3, mask = size - 1, pos = 0;
    for (size_t s = 0; s < norm.size(); s++) { if (norm[s] <= 0) continue; for (int i = 0; i < norm[s]; i++) { t.sym[pos] = (uint8_t)s; do { pos = (pos + step) & mask; } while (pos > high); } }
    for (size_t x = 0; x < size; x++) { uint8_t s = t.sym[x]; uint32_t ns = next[s]++; unsigned nbv = al - hibit(ns); t.nbits[x] = (uint8_t)nbv; t.base[x] = (uint16_t)((ns << nbv) - size); }
    return t;
}
inline FseTable default_table(int which) {
    FseTable t; uint8_t sym[64], nb[64]; uint16_t base[64];
    int n = edu_default_table(which, sym, nb, base);
    t.al = which == 1 ? 5 : 6; t.sym.assign(sym, sym + n); t.nbits.assign(nb, nb + n); t.base.assign(base, base + n);
    return t;
}
inline FseTable rle_table(uint8_t s) { FseTable t; t.al = 0; t.sym = {s}; t.nbits = {0}; t.base = {0}; return t; }

// the unique state holding symbol s whose [base, base+2^nbits) contains `next` (inverse of one decoding step)
inline int state_for(const FseTable& t, uint8_t s, unsigned next) {
    for (size_t x = 0; x < t.sym.size(); x++) if (t.sym[x] == s && next >= t.base[x] && next < (unsigned)t.base[x] + (1u << t.nbits[x])) return (int)x;
    return -1;
}
inline int any_state_for(const FseTable& t, uint8_t s, unsigned pick) {
    std::vector<int> c; for (size_t x = 0; x < t.sym.size(); x++) if (t.sym[x] == s) c.push_back((int)x);
    return c.empty() ? -1 : c[pick % c.size()];
}

// ---- FSE table description (spec: "FSE Table Description"), inverse of the reader ----
inline std::vector<uint8_t> write_ncount(const std::vector<int>& norm, unsigned al) {
    std::vector<uint8_t> out; uint64_t acc = 0; unsigned nb = 0;
    auto add = [&](uint32_t v, unsigned n) { acc |= (uint64_t)v << nb; nb += n; while (nb >= 8) { out.push_back((uint8_t)acc); acc >>= 8; nb -= 8; } };
    add(al - 5, 4);
    int remaining = (1 << al) + 1, threshold = 1 << al; unsigned nbBits = al + 1;
    size_t s = 0; bool prev0 = false;
    size_t last = norm.size(); while (last > 0 && norm[last - 1] == 0) last--;
    while (remaining > 1 && s < last) {
        if (prev0) {
            size_t start = s;
            while (s < last && norm[s] == 0) s++;
            size_t zeros = s - start;
            while (zeros >= 3) { add(3, 2); zeros -= 3; }
            add((uint32_t)zeros, 2);
            if (s >= last) break;
        }
        int count = norm[s++];
        int max = (2 * threshold - 1) - remaining;
        remaining -= count < 0 ? -count : count;
        count++;
        if (count >= threshold) count += max;
        if (count < max) add((uint32_t)count, nbBits - 1);
        else { add((uint32_t)count, nbBits); }
        // small values use nbBits-1 bits: values < max; otherwise nbBits bits with the low part first
        prev0 = (count == 1);
        while (remaining < threshold) { nbBits--; threshold >>= 1; }
    }
    if (nb) out.push_back((uint8_t)acc);
    return out;
}

// random normalised distribution over symbols [0, maxSym] covering `used` (each used symbol gets >= 1 or -1), sum == 1<<al
inline std::vector<int> gen_norm(vf::Tape& t, unsigned al, unsigned maxSym, const std::vector<bool>& used) {
    std::vector<int> norm(maxSym + 1, 0);
    int total = 1 << al;
    std::vector<unsigned> syms;
    for (unsigned s = 0; s <= maxSym; s++) if (used[s] || t.chance(12)) syms.push_back(s);
    if (syms.size() < 2) { for (unsigned s = 0; s <= maxSym && syms.size() < 2; s++) if (std::find(syms.begin(), syms.end(), s) == syms.end()) syms.push_back(s); std::sort(syms.begin(), syms.end()); }
    while ((int)syms.size() > total) syms.pop_back();
    int left = total;
    for (unsigned s : syms) { bool lowp = t.chance(25); norm[s] = lowp ? -1 : 1; left -= 1; }
    // hand out the rest
    while (left > 0) {
        unsigned s = syms[t.range(0, syms.size() - 1)];
        int give = (int)t.range(1, (uint64_t)std::max(1, left / 2 + 1));
        if (give > left) give = left;
        if (norm[s] == -1) { norm[s] = 1; }   // a -1 symbol that receives more becomes a normal one (its 1 is already counted)
        norm[s] += give; left -= give;
    }
    return norm;
}

static const uint32_t LL_BASE[36] = {0,1,2,3,4,5,6,7,8,9,10,11,12,13,14,15,16,18,20,22,24,28,32,40,48,64,128,256,512,1024,2048,4096,8192,16384,32768,65536};
static const uint8_t LL_BITS[36] = {0,0,0,0,0,0,0,0,0,0,0,0,0,0,0,0,1,1,1,1,2,2,3,3,4,6,7,8,9,10,11,12,13,14,15,16};
static const uint32_t ML_BASE[53] = {3,4,5,6,7,8,9,10,11,12,13,14,15,16,17,18,19,20,21,22,23,24,25,26,27,28,29,30,31,32,33,34,35,37,39,41,43,47,51,59,67,83,99,131,259,515,1027,2051,4099,8195,16387,32771,65539};
static const uint8_t ML_BITS[53] = {0,0,0,0,0,0,0,0,0,0,0,0,0,0,0,0,0,0,0,0,0,0,0,0,0,0,0,0,0,0,0,0,1,1,1,1,2,2,3,3,4,4,5,7,8,9,10,11,12,13,14,15,16};
inline unsigned ll_code(uint32_t v) { unsigned c = 35; while (LL_BASE[c] > v) c--; return c; }
inline unsigned ml_code(uint32_t v) { unsigned c = 52; while (ML_BASE[c] > v) c--; return c; }

struct Seq { uint32_t ll, ml; uint32_t offset; uint32_t offval; };

struct HufTable { std::vector<uint8_t> weights; unsigned maxBits = 0; std::vector<uint16_t> code; std::vector<uint8_t> nbits; bool valid = false; };

// weights over symbols [0, n): sum of 2^(w-1) must be a power of two; the last non-zero symbol's weight is implicit
inline HufTable make_huf(vf::Tape& t, const std::vector<bool>& used, unsigned maxBitsWanted) {
    HufTable h;
    unsigned lastSym = 0; for (unsigned s = 0; s < used.size(); s++) if (used[s]) lastSym = s;
    unsigned nsym = 0; for (unsigned s = 0; s <= lastSym; s++) if (used[s]) nsym++;
    if (nsym < 2) { // a tree needs two leaves: add one
        unsigned extra = lastSym == 0 ? 1 : 0; const_cast<std::vector<bool>&>(used)[extra] = true; if (extra > lastSym) lastSym = extra; nsym = 2;
    }
    // code lengths by a simple Kraft filling: assign lengths then fix up so that sum 2^-len == 1
    std::vector<unsigned> syms; for (unsigned s = 0; s <= lastSym; s++) if (used[s]) syms.push_back(s);
    unsigned L = std::max(1u, std::min(maxBitsWanted, 11u));
    while ((1u << L) < syms.size()) L++;
    if (L > 11) return h;
    std::vector<unsigned> len(syms.size(), L);
    // total = sum 2^(L-len) must equal 2^L: start all at L (total = nsyms), then shorten symbols while room remains
    unsigned total = (unsigned)syms.size(), cap = 1u << L;
    for (unsigned guard = 0; total < cap && guard < 10000; guard++) {
        size_t i = (size_t)t.range(0, syms.size() - 1);
        unsigned add = 1u << (L - len[i]);   // shortening by one doubles its share
        if (len[i] > 1 && total + add <= cap) { len[i]--; total += add; }
        else { // deterministic sweep to guarantee progress
            bool done = false;
            for (size_t j = 0; j < syms.size() && !done; j++) { unsigned a2 = 1u << (L - len[j]); if (len[j] > 1 && total + a2 <= cap) { len[j]--; total += a2; done = true; } }
            if (!done) break;
        }
    }
    if (total != cap) return h;
    h.maxBits = 0; for (unsigned l : len) h.maxBits = std::max(h.maxBits, l);
    h.weights.assign(lastSym + 1, 0);
    for (size_t i = 0; i < syms.size(); i++) h.weights[syms[i]] = (uint8_t)(h.maxBits + 1 - len[i]);
    // canonical codes: from the lowest weight up, in symbol order
    h.code.assign(lastSym + 1, 0); h.nbits.assign(lastSym + 1, 0);
    std::vector<unsigned> count(h.maxBits + 2, 0);
    for (unsigned s = 0; s <= lastSym; s++) if (h.weights[s]) count[h.weights[s]]++;
    std::vector<unsigned> next(h.maxBits + 2, 0);
    for (unsigned w = 1; w <= h.maxBits; w++) next[w + 1] = (next[w] + count[w]) >> 1;
    for (unsigned w = 1; w <= h.maxBits; w++) for (unsigned s = 0; s <= lastSym; s++) if (h.weights[s] == w) { h.code[s] = (uint16_t)next[w]++; h.nbits[s] = (uint8_t)(h.maxBits + 1 - w); }
    h.valid = true;
    return h;
}
inline std::vector<uint8_t> huf_description(const HufTable& h) {
    // direct representation: headerByte = 127 + number of weights listed (all but the last), 4 bits each, first weight in the high nibble
    std::vector<uint8_t> out;
    size_t n = h.weights.size() - 1;
    out.push_back((uint8_t)(127 + n));
    for (size_t i = 0; i < n; i += 2) { uint8_t hi = h.weights[i], lo = (i + 1 < n) ? h.weights[i + 1] : 0; out.push_back((uint8_t)((hi << 4) | lo)); }
    return out;
}
inline std::vector<uint8_t> huf_stream(const HufTable& h, const uint8_t* p, size_t n) {
    std::vector<Field> f; f.reserve(n);
    for (size_t i = 0; i < n; i++) f.push_back({h.code[p[i]], h.nbits[p[i]]});
    return pack_backward(f);
}

struct Synth { std::vector<uint8_t> bytes, content; std::string desc; std::vector<std::string> features; };

inline void put_le(std::vector<uint8_t>& o, uint64_t v, unsigned n) { for (unsigned i = 0; i < n; i++) o.push_back((uint8_t)(v >> (8 * i))); }

struct SeqTables { FseTable ll, of, ml; bool have = false; };

// one compressed block; returns false when the chosen shape cannot be encoded (caller falls back to raw)
inline bool gen_compressed_block(vf::Tape& t, Synth& sy, std::vector<uint8_t>& content, size_t blockMax, uint64_t window, HufTable& prevHuf, SeqTables& prev, uint32_t rep[3], std::vector<uint8_t>& blockOut, size_t frameStart) {
    // ---- semantic level: literals + sequences, executed here to state the expected content ----
    size_t budget = std::min<size_t>(blockMax, (size_t)t.range(1, t.chance(20) ? blockMax : 4000));
    unsigned alpha = (unsigned)t.pick<unsigned>({2, 3, 5, 16, 60, 120});
    unsigned nseq = t.chance(25) ? 0 : (unsigned)t.range(1, t.chance(10) ? 300 : 12);
    std::vector<uint8_t> lits;
    std::vector<Seq> seqs;
    size_t produced = 0;
    size_t startLen = content.size();
    gen::Xs x(t.raw() + 77);
    auto lit_byte = [&]() { return (uint8_t)((x.next() % alpha)); };
    for (unsigned i = 0; i < nseq && produced + 4 < budget; i++) {
        Seq s;
        s.ll = (uint32_t)(t.chance(30) ? 0 : t.range(0, t.chance(10) ? 300 : 9));
        if (content.size() - frameStart + s.ll == 0) s.ll = 1;   // a match needs history
        if (produced + s.ll + 3 > budget) break;
        for (uint32_t k = 0; k < s.ll; k++) { uint8_t b = lit_byte(); lits.push_back(b); content.push_back(b); }
        produced += s.ll;
        size_t hist = content.size() - frameStart;
        // offset: a repeat offset, a small one, or anything inside min(history, window)
        uint64_t maxoff = std::min<uint64_t>(hist, window);
        uint32_t off;
        switch (t.weighted({3, 3, 2, 2})) {
            case 0: off = rep[t.range(0, 2)]; break;
            case 1: off = (uint32_t)t.range(1, std::min<uint64_t>(maxoff, 8)); break;
            case 2: off = (uint32_t)maxoff - (uint32_t)t.range(0, std::min<uint64_t>(maxoff - 1, 3)); break;
            default: off = (uint32_t)t.range(1, maxoff); break;
        }
        if (off == 0 || off > maxoff) off = (uint32_t)t.range(1, maxoff);
        s.offset = off;
        s.ml = (uint32_t)(3 + (t.chance(15) ? t.range(0, 600) : t.range(0, 12)));
        if (produced + s.ml > budget) s.ml = (uint32_t)(budget - produced);
        if (s.ml < 3) { // undo the literals of this unfinished sequence: they become trailing literals
            break;
        }
        for (uint32_t k = 0; k < s.ml; k++) content.push_back(content[content.size() - off]);
        produced += s.ml;
        // offset value: repcode when the actual offset equals a history entry (spec: Repeat Offsets), else offset+3
        uint32_t r1 = rep[0], r2 = rep[1], r3 = rep[2];
        uint32_t ov = off + 3;
        bool asRep = t.chance(75);
        if (asRep) {
            if (s.ll != 0) { if (off == r1) ov = 1; else if (off == r2) ov = 2; else if (off == r3) ov = 3; }
            else { if (off == r2) ov = 1; else if (off == r3) ov = 2; else if (r1 > 1 && off == r1 - 1) ov = 3; }
        }
        s.offval = ov;
        // history update per spec
        if (ov > 3) { rep[2] = r2; rep[1] = r1; rep[0] = off; }
        else {
            unsigned idx = ov - 1 + (s.ll == 0 ? 1 : 0);   // 0: rep1, 1: rep2, 2: rep3, 3: rep1-1
            if (idx == 0) { /* no change */ }
            else if (idx == 1) { rep[1] = r1; rep[0] = r2; }
            else { rep[2] = r2; rep[1] = r1; rep[0] = off; }
        }
        seqs.push_back(s);
    }
    // trailing literals
    {
        size_t room = budget - produced;
        size_t tl = seqs.empty() ? std::max<size_t>(room ? (size_t)t.range(0, room) : 0, 0) : (size_t)t.range(0, std::min<size_t>(room, 40));
        for (size_t k = 0; k < tl; k++) { uint8_t b = lit_byte(); lits.push_back(b); content.push_back(b); }
        produced += tl;
    }
    size_t regen = content.size() - startLen;
    if (regen > blockMax) return false;

    // ---- literals section ----
    std::vector<uint8_t> sec;
    int ltype = (int)t.weighted({3, 1, 5, 2});   // raw, rle, compressed, treeless
    bool allSame = !lits.empty(); for (uint8_t b : lits) if (b != lits[0]) allSame = false;
    if (ltype == 1 && !allSame) ltype = 0;
    if (ltype == 3 && !prevHuf.valid) ltype = 2;
    if (ltype == 3) { for (uint8_t b : lits) if (b >= prevHuf.weights.size() || prevHuf.weights[b] == 0) { ltype = 2; break; } }
    if ((ltype == 2 || ltype == 3) && lits.empty()) ltype = 0;
    size_t L = lits.size();
    if (ltype == 0 || ltype == 1) {
        // size formats 1/2/3 bytes: 5 / 12 / 20 bits; non-minimal formats are legal
        unsigned minfmt = L < 32 ? 0 : L < 4096 ? 1 : 2;
        unsigned fmt = (unsigned)t.range(minfmt, 2);
        if (fmt == 0) sec.push_back((uint8_t)(ltype | (0 << 2) | (L << 3)));
        else if (fmt == 1) { uint32_t v = (uint32_t)(ltype | (1 << 2) | (L << 4)); put_le(sec, v, 2); }
        else { uint32_t v = (uint32_t)(ltype | (3 << 2) | (L << 4)); put_le(sec, v, 3); }
        if (fmt > minfmt) sy.features.push_back("non-minimal literals size format");
        if (ltype == 0) sec.insert(sec.end(), lits.begin(), lits.end()); else sec.push_back(lits[0]);
        if (ltype == 1) sy.features.push_back("RLE literals");
    } else {
        HufTable h;
        std::vector<uint8_t> desc;
        if (ltype == 2) {
            std::vector<bool> used(alpha < 2 ? 2 : alpha, false);
            for (uint8_t b : lits) used[b] = true;
            h = make_huf(t, used, (unsigned)t.range(1, 11));
            if (!h.valid) return false;
            desc = huf_description(h);
        } else { h = prevHuf; sy.features.push_back("treeless literals"); }
        bool four = L >= 6 && (L - 3 * ((L + 3) / 4)) >= 1 && (L + 3) / 4 * 3 < L + 1 && t.chance(50);
        std::vector<uint8_t> body;
        if (!four) body = huf_stream(h, lits.data(), L);
        else {
            size_t seg = (L + 3) / 4;
            std::vector<std::vector<uint8_t>> st;
            for (int k = 0; k < 4; k++) { size_t a = std::min(L, seg * k), b = k == 3 ? L : std::min(L, seg * (k + 1)); st.push_back(huf_stream(h, lits.data() + a, b - a)); }
            for (int k = 0; k < 3; k++) { if (st[k].size() > 0xFFFF) return false; put_le(body, st[k].size(), 2); }
            for (int k = 0; k < 4; k++) body.insert(body.end(), st[k].begin(), st[k].end());
        }
        size_t csize = desc.size() + body.size();
        // size format: 0 (1 stream, 10/10 bits), 1 (4 streams 10/10), 2 (4 streams 14/14), 3 (4 streams 18/18)
        unsigned fmt;
        if (!four) { if (L >= 1024 || csize >= 1024) return false; fmt = 0; }
        else { unsigned minfmt = (L < 1024 && csize < 1024) ? 1 : (L < 16384 && csize < 16384) ? 2 : 3; if (L >= (1u << 18) || csize >= (1u << 18)) return false; fmt = (unsigned)t.range(minfmt, 3); if (fmt > minfmt) sy.features.push_back("non-minimal literals size format"); }
        unsigned bits = fmt <= 1 ? 10 : fmt == 2 ? 14 : 18;
        uint64_t hdr = (uint64_t)(ltype) | ((uint64_t)fmt << 2) | ((uint64_t)L << 4) | ((uint64_t)csize << (4 + bits));
        put_le(sec, hdr, fmt <= 1 ? 3 : fmt == 2 ? 4 : 5);
        sec.insert(sec.end(), desc.begin(), desc.end());
        sec.insert(sec.end(), body.begin(), body.end());
        if (csize >= L) sy.features.push_back("compressed literals not smaller than regenerated");
        if (h.maxBits == 11) sy.features.push_back("huffman depth 11");
        if (four) sy.features.push_back("4-stream literals");
        if (ltype == 2) prevHuf = h;
    }
    // ---- sequences section ----
    size_t ns = seqs.size();
    if (ns == 0) {
        if (t.chance(30)) { sec.push_back(0x80); sec.push_back(0x00); sy.features.push_back("zero sequences in 2-byte count format"); }
        else sec.push_back(0);
    } else {
        if (ns < 128 && t.chance(70)) sec.push_back((uint8_t)ns);
        else { sec.push_back((uint8_t)(128 + (ns >> 8))); sec.push_back((uint8_t)ns); if (ns < 128) sy.features.push_back("non-minimal sequence count format"); }
        std::vector<uint8_t> llc(ns), ofc(ns), mlc(ns);
        std::vector<bool> usedLL(36, false), usedOF(32, false), usedML(53, false);
        for (size_t i = 0; i < ns; i++) { llc[i] = (uint8_t)ll_code(seqs[i].ll); mlc[i] = (uint8_t)ml_code(seqs[i].ml); ofc[i] = (uint8_t)hibit(seqs[i].offval); usedLL[llc[i]] = true; usedOF[ofc[i]] = true; usedML[mlc[i]] = true; }
        FseTable tb[3]; int mode[3]; std::vector<uint8_t> tdesc[3];
        const std::vector<uint8_t>* codes[3] = {&llc, &ofc, &mlc};
        const std::vector<bool>* used[3] = {&usedLL, &usedOF, &usedML};
        unsigned maxSym[3] = {35, 31, 52}, maxAL[3] = {9, 8, 9};
        const FseTable* prevT[3] = {&prev.ll, &prev.of, &prev.ml};
        for (int k = 0; k < 3; k++) {
            int m = (int)t.weighted({3, 2, 3, 2});   // predefined, rle, fse, repeat
            bool oneSym = true; for (uint8_t cc : *codes[k]) if (cc != (*codes[k])[0]) oneSym = false;
            if (m == 1 && !oneSym) m = 2;
            if (m == 3) { if (!prev.have) m = 0; else for (uint8_t cc : *codes[k]) { bool ok = false; for (uint8_t s2 : prevT[k]->sym) if (s2 == cc) ok = true; if (!ok) { m = 2; break; } } }
            if (m == 0) { FseTable d = default_table(k); for (uint8_t cc : *codes[k]) { bool ok = false; for (uint8_t s2 : d.sym) if (s2 == cc) ok = true; if (!ok) { m = 2; break; } } if (m == 0) tb[k] = d; }
            if (m == 1) { tb[k] = rle_table((*codes[k])[0]); tdesc[k] = {(*codes[k])[0]}; sy.features.push_back("RLE sequence table"); }
            if (m == 2) {
                unsigned al = (unsigned)t.range(5, maxAL[k]);
                std::vector<int> norm = gen_norm(t, al, maxSym[k], *used[k]);
                tb[k] = build_fse(norm, al); tdesc[k] = write_ncount(norm, al);
                bool hasLow = false; for (int v : norm) if (v == -1) hasLow = true;
                if (hasLow) sy.features.push_back("FSE table with less-than-1 probabilities");
                if (al == maxAL[k]) sy.features.push_back("FSE table at maximum accuracy");
            }
            if (m == 3) { tb[k] = *prevT[k]; sy.features.push_back("repeat sequence table"); }
            mode[k] = m;
        }
        sec.push_back((uint8_t)((mode[0] << 6) | (mode[1] << 4) | (mode[2] << 2)));
        for (int k = 0; k < 3; k++) sec.insert(sec.end(), tdesc[k].begin(), tdesc[k].end());
        // states, working backwards from the last sequence
        std::vector<int> sl(ns), so(ns), sm(ns);
        sl[ns - 1] = any_state_for(tb[0], llc[ns - 1], (unsigned)t.raw()); so[ns - 1] = any_state_for(tb[1], ofc[ns - 1], (unsigned)t.raw()); sm[ns - 1] = any_state_for(tb[2], mlc[ns - 1], (unsigned)t.raw());
        if (sl[ns - 1] < 0 || so[ns - 1] < 0 || sm[ns - 1] < 0) return false;
        for (size_t i = ns - 1; i-- > 0;) {
            sl[i] = state_for(tb[0], llc[i], (unsigned)sl[i + 1]); so[i] = state_for(tb[1], ofc[i], (unsigned)so[i + 1]); sm[i] = state_for(tb[2], mlc[i], (unsigned)sm[i + 1]);
            if (sl[i] < 0 || so[i] < 0 || sm[i] < 0) return false;
        }
        std::vector<Field> f;
        f.push_back({(uint64_t)sl[0], tb[0].al}); f.push_back({(uint64_t)so[0], tb[1].al}); f.push_back({(uint64_t)sm[0], tb[2].al});
        for (size_t i = 0; i < ns; i++) {
            f.push_back({seqs[i].offval - (1u << ofc[i]), ofc[i]});
            f.push_back({seqs[i].ml - ML_BASE[mlc[i]], ML_BITS[mlc[i]]});
            f.push_back({seqs[i].ll - LL_BASE[llc[i]], LL_BITS[llc[i]]});
            if (i + 1 < ns) {
                f.push_back({(uint64_t)(sl[i + 1] - tb[0].base[sl[i]]), tb[0].nbits[sl[i]]});
                f.push_back({(uint64_t)(sm[i + 1] - tb[2].base[sm[i]]), tb[2].nbits[sm[i]]});
                f.push_back({(uint64_t)(so[i + 1] - tb[1].base[so[i]]), tb[1].nbits[so[i]]});
            }
        }
        std::vector<uint8_t> bs = pack_backward(f);
        sec.insert(sec.end(), bs.begin(), bs.end());
        prev.ll = tb[0]; prev.of = tb[1]; prev.ml = tb[2]; prev.have = true;
        for (size_t i = 0; i < ns; i++) { if (seqs[i].offval <= 3) { sy.features.push_back(seqs[i].ll == 0 ? "repeat offset with literals_length 0" : "repeat offset"); break; } }
    }
    if (sec.size() > blockMax || sec.size() >= (1u << 21)) return false;
    if (sec.size() >= regen) sy.features.push_back("compressed block not smaller than its content");
    blockOut = sec;
    return true;
}

inline Synth gen_frame(vf::Tape& t) {
    Synth sy;
    std::vector<uint8_t>& o = sy.bytes;
    put_le(o, 0xFD2FB528u, 4);
    unsigned wexp = (unsigned)t.range(0, 11), wman = (unsigned)t.weighted({4, 1, 1, 1, 1, 1, 1, 1});
    uint64_t wbase = 1ull << (10 + wexp), window = wbase + (wbase / 8) * wman;
    bool checksum = t.flip();
    unsigned nblocks = (unsigned)t.weighted({4, 3, 2, 1, 1}) + 1;
    size_t blockMax = (size_t)std::min<uint64_t>(window, 131072);
    HufTable prevHuf; SeqTables prevT; uint32_t rep[3] = {1, 4, 8};
    std::vector<uint8_t> body;
    size_t maxCBlock = 0;
    char b[128];
    for (unsigned bi = 0; bi < nblocks; bi++) {
        bool last = bi + 1 == nblocks;
        int bt = (int)t.weighted({2, 2, 6});
        std::vector<uint8_t> blk; size_t bsize = 0;
        if (bt == 2) {
            std::vector<uint8_t> saved = sy.content; HufTable sh = prevHuf; SeqTables st = prevT; uint32_t sr[3] = {rep[0], rep[1], rep[2]};
            if (gen_compressed_block(t, sy, sy.content, blockMax, window, prevHuf, prevT, rep, blk, 0)) { bsize = blk.size(); maxCBlock = std::max(maxCBlock, bsize); }
            else { sy.content = saved; prevHuf = sh; prevT = st; rep[0] = sr[0]; rep[1] = sr[1]; rep[2] = sr[2]; bt = 0; }
        }
        if (bt == 0) { size_t n = (size_t)(t.chance(15) ? 0 : t.range(0, std::min<size_t>(blockMax, 300))); gen::Xs x(t.raw() + 5); for (size_t i = 0; i < n; i++) { uint8_t v = (uint8_t)x.next(); blk.push_back(v); sy.content.push_back(v); } bsize = n; if (!n) sy.features.push_back("empty raw block"); }
        if (bt == 1) { size_t n = (size_t)t.range(t.chance(10) ? 0 : 1, t.chance(10) ? blockMax : 500); uint8_t v = (uint8_t)t.range(0, 255); blk.push_back(v); sy.content.insert(sy.content.end(), n, v); bsize = n; if (bi == 0 && nblocks > 1) sy.features.push_back("RLE first block followed by more blocks"); }
        uint32_t bh = (uint32_t)(last ? 1 : 0) | ((uint32_t)bt << 1) | ((uint32_t)bsize << 3);
        put_le(body, bh, 3);
        body.insert(body.end(), blk.begin(), blk.end());
        snprintf(b, sizeof b, "%s%zu ", bt == 0 ? "raw" : bt == 1 ? "rle" : "cmp", bsize); sy.desc += b;
    }
    // frame header: descriptor, window or single segment, content size in a chosen width
    size_t N = sy.content.size();
    bool single = t.chance(30) && N <= window && N <= 131072 && maxCBlock <= N;   // single segment: window = content size, one block max each still <= min(window,128K)
    if (single) { for (unsigned bi = 0; bi < 1; bi++) {} }
    unsigned fcsCode;   // 0: none/1 byte(single), 1: 2 bytes, 2: 4 bytes, 3: 8 bytes
    if (single) { unsigned minc = N < 256 ? 0 : N < 65792 ? 1 : 2; fcsCode = (unsigned)t.range(minc, 3); if (fcsCode == 1 && N < 256) fcsCode = 2; if (fcsCode > minc) sy.features.push_back("non-minimal content size field"); }
    else { fcsCode = (unsigned)t.weighted({3, 1, 1, 1}); if (fcsCode == 1 && (N < 256 || N >= 65792)) fcsCode = 2; }
    // single segment makes Window_Size = content size: every block must still fit min(Window_Size, 128K); keep it only when they do
    if (single) { size_t bm = std::min<size_t>(N, 131072); (void)bm; }
    uint8_t fhd = (uint8_t)((fcsCode << 6) | ((single ? 1 : 0) << 5) | ((checksum ? 1 : 0) << 2));
    o.push_back(fhd);
    if (!single) o.push_back((uint8_t)((wexp << 3) | wman));
    if (single && fcsCode == 0) o.push_back((uint8_t)N);
    else if (fcsCode == 1) put_le(o, N - 256, 2);
    else if (fcsCode == 2) put_le(o, N, 4);
    else if (fcsCode == 3) put_le(o, N, 8);
    o.insert(o.end(), body.begin(), body.end());
    if (checksum) put_le(o, (uint32_t)vxxh64(sy.content.data(), N, 0), 4);
    if (wman) sy.features.push_back("window descriptor with mantissa");
    snprintf(b, sizeof b, "| window=%llu single=%d fcs=%u checksum=%d content=%zu", (unsigned long long)window, (int)single, fcsCode, (int)checksum, N);
    sy.desc += b;
    std::sort(sy.features.begin(), sy.features.end()); sy.features.erase(std::unique(sy.features.begin(), sy.features.end()), sy.features.end());
    return sy;
}

}  // namespace fsyn
