// stream_engine.hpp - model-based streaming encoder/decoder histories (C02, C10, reused by C05/C07/C09).
// The harness holds the reference byte stream and the frame-end offsets; the
// library only ever sees slices and capacities chosen from the tape.
#pragma once
#define ZSTD_STATIC_LINKING_ONLY
#define ZBUFF_STATIC_LINKING_ONLY
#include "zstd.h"
#include "zstd_errors.h"
#include "vf.h"
#include "../gen/content.hpp"
#include "../gen/params.hpp"
#include "frame_walk.hpp"
#if defined(__clang__)
#pragma clang diagnostic ignored "-Wdeprecated-declarations"
#endif
#include "../../repo/lib/deprecated/zbuff.h"

namespace se {

enum EncFlavor { F_CS2 = 0, F_LEGACY, F_SIMPLE, F_STABLE_IN, F_STABLE_OUT, F_ZBUFF, F_BUFFERLESS, F_NFLAVORS };
static const char* flavor_name[] = {"compressStream2", "legacy", "simpleArgs", "stableIn", "stableOut", "ZBUFF", "bufferless"};

// slice / capacity classes: 0,1,2,3, header sizes, 127..129, block edges, large
inline size_t gen_chunk(vf::Tape& t, size_t blockSize = 131072, bool allow_zero = true) {
    switch (t.weighted({3, 3, 2, 2, 2, 3, 2})) {
        case 0: return (size_t)t.range(allow_zero ? 0 : 1, 3);
        case 1: return (size_t)t.range(4, 18);
        case 2: return (size_t)t.range(126, 130);
        case 3: return (size_t)t.range(19, 1024);
        case 4: return blockSize + (size_t)t.range(0, 4) - 2;
        case 5: return (size_t)t.range(1025, 70000);
        default: return (size_t)t.range(70001, 600000);
    }
}

struct Frame {
    std::vector<uint8_t> x;      // content (empty for skippable)
    bool skippable = false;
    size_t cBegin = 0, cEnd = 0; // offsets in compressed stream
    size_t dBegin = 0, dEnd = 0; // offsets in regenerated stream
    bool magicless = false;
    std::string desc;
};

struct FlushPoint { size_t cSoFar, dSoFar; size_t frameIdx; };

struct EncResult {
    std::vector<uint8_t> out;
    std::vector<Frame> frames;
    std::vector<FlushPoint> flushes;   // points where a flush directive returned 0
    unsigned calls = 0, out_full = 0, mid_flush = 0, tiny_in = 0, tiny_out = 0, abandoned = 0;
    bool magicless = false;
    int nbWorkers = 0;
    std::vector<uint8_t> all() const { std::vector<uint8_t> v; for (auto& f : frames) v.insert(v.end(), f.x.begin(), f.x.end()); return v; }
};

struct EncOpts {
    bool thorough = false;
    size_t max_content = 1u << 20;
    bool allow_mt = true;
    bool allow_multi_frame = true;
    bool allow_skippable = true;
    bool allow_magicless = true;
    bool allow_abandon = true;
    int force_flavor = -1;
    unsigned flush_weight = 1;     // C10 raises this
    bool pledge = true;
    unsigned max_calls = 60000;
};

inline bool is_clean_refusal(size_t code) {
    ZSTD_ErrorCode e = ZSTD_getErrorCode(code);
    return e == ZSTD_error_memory_allocation || e == ZSTD_error_parameter_unsupported || e == ZSTD_error_parameter_combination_unsupported;
}

// Runs one generated encoder history for one frame on cctx, appending to res.out.
inline void encode_frame(vf::Ctx& c, ZSTD_CCtx* cctx, const EncOpts& eo, int flavor, gen::ParamSet& ps, const std::vector<uint8_t>& x, EncResult& res) {
    vf::Tape& t = c.t;
    Frame fr;
    fr.x = x;
    fr.cBegin = res.out.size();
    fr.dBegin = res.frames.empty() ? 0 : res.frames.back().dEnd;
    size_t consumed = 0;
    size_t maxBlock = (size_t)ps.get(ZSTD_c_maxBlockSize, 0);
    size_t blockSize = maxBlock ? maxBlock : 131072;
    bool pledged = false;
    vf::Buf src(x.data(), x.size());

    if (flavor == F_BUFFERLESS) {
        int lvl = ps.get(ZSTD_c_compressionLevel, 3);
        size_t r = ZSTD_compressBegin(cctx, lvl);
        VF_CHECK(c, !ZSTD_isError(r), "compressBegin: %s", ZSTD_getErrorName(r));
        size_t bmax = 131072;  // buffer-less blocks are limited to the block size max
        while (true) {
            size_t remaining = x.size() - consumed;
            size_t n = std::min(remaining, std::min(bmax * 3, std::max<size_t>(1, gen_chunk(t, blockSize, false))));
            bool last = (n == remaining);
            size_t cap = ZSTD_compressBound(n) + 32;
            vf::Buf ob(cap);
            size_t w = last ? ZSTD_compressEnd(cctx, ob.p, cap, src.p + consumed, n) : ZSTD_compressContinue(cctx, ob.p, cap, src.p + consumed, n);
            res.calls++;
            VF_CHECK(c, !ZSTD_isError(w), "bufferless %s(n=%zu): %s", last ? "compressEnd" : "compressContinue", n, ZSTD_getErrorName(w));
            VF_CHECK(c, w <= cap, "bufferless wrote %zu > cap %zu", w, cap);
            res.out.insert(res.out.end(), ob.p, ob.p + w);
            consumed += n;
            if (last) break;
        }
        fr.cEnd = res.out.size(); fr.dEnd = fr.dBegin + x.size();
        res.frames.push_back(fr);
        return;
    }

    ZBUFF_CCtx* zb = nullptr;
    if (flavor == F_LEGACY) {
        int lvl = ps.get(ZSTD_c_compressionLevel, 3);
        size_t r = ZSTD_initCStream(cctx, lvl);
        VF_CHECK(c, !ZSTD_isError(r), "initCStream: %s", ZSTD_getErrorName(r));
    } else if (flavor == F_ZBUFF) {
        zb = ZBUFF_createCCtx();
        size_t r = ZBUFF_compressInit(zb, ps.get(ZSTD_c_compressionLevel, 3));
        VF_CHECK(c, !ZSTD_isError(r), "ZBUFF_compressInit: %s", ZSTD_getErrorName(r));
    } else {
        if (eo.pledge && t.chance(25)) {
            size_t r = ZSTD_CCtx_setPledgedSrcSize(cctx, x.size());
            VF_CHECK(c, !ZSTD_isError(r), "setPledgedSrcSize: %s", ZSTD_getErrorName(r));
            pledged = true;
        }
    }
    (void)pledged;
    ZSTD_CStream* zcs = zb ? (ZSTD_CStream*)zb : cctx;

    // stable buffers: one fixed output buffer for the whole frame / one fixed input
    size_t stableCap = 0;
    vf::Buf* stableOut = nullptr;
    size_t stableOutPos = 0;
    if (flavor == F_STABLE_OUT) {
        stableCap = ZSTD_compressBound(x.size()) + 64 + (size_t)t.range(0, 64);
        stableOut = new vf::Buf(stableCap);
    }
    size_t inSize = 0;  // stableIn: currently exposed size
    bool done = false;
    size_t end_bytes = 0;
    bool ending = false;  // zstd.h: once an end directive returned >0 it is repeated until it returns 0
    unsigned stall = 0;
    while (!done) {
        VF_CHECK(c, res.calls < eo.max_calls, "encoder did not finish in %u calls", eo.max_calls);
        size_t remaining = x.size() - consumed;
        // directive
        int dir;
        size_t slice;
        if (flavor == F_STABLE_IN) {
            // the exposed size may only grow; pos is left where zstd put it
            size_t grow = std::min(x.size() - inSize, gen_chunk(t, blockSize));
            inSize += grow;
            slice = inSize - consumed;
        } else {
            slice = std::min(remaining, gen_chunk(t, blockSize));
        }
        bool all_in = (flavor == F_STABLE_IN) ? (inSize == x.size()) : (slice == remaining);
        unsigned w = (unsigned)t.weighted({6, 2 * eo.flush_weight, 2});
        dir = (w == 0) ? ZSTD_e_continue : (w == 1) ? ZSTD_e_flush : ZSTD_e_end;
        if (dir == ZSTD_e_end && !all_in) dir = ZSTD_e_flush;  // end only once all input is offered (a frame's content is fixed up front)
        if (remaining == 0 && all_in && t.chance(70)) dir = ZSTD_e_end;
        size_t cap = gen_chunk(t, blockSize);
        if (slice == 0 && dir == ZSTD_e_continue && remaining == 0) dir = ZSTD_e_end;
        if (ending) { dir = ZSTD_e_end; if (flavor != F_STABLE_IN) slice = remaining; }
        if (t.exhausted()) {  // simplest continuation once the tape has run out: everything, ended, with room
            if (flavor == F_STABLE_IN) { inSize = x.size(); slice = inSize - consumed; } else slice = remaining;
            dir = ZSTD_e_end; cap = 1u << 17;
        }
        // never make two consecutive calls that both lack input or output room
        if (stall >= 1) { if (cap == 0) cap = 1 + (size_t)t.range(0, 40); }
        if (flavor == F_STABLE_IN && dir != ZSTD_e_continue) {
            // stableIn + flush/end: pos must be preserved, fine.
        }
        vf::Buf* ob;
        vf::Buf tmp(flavor == F_STABLE_OUT ? 0 : cap);
        size_t opos0;
        if (flavor == F_STABLE_OUT) { ob = stableOut; cap = stableCap; opos0 = stableOutPos; } else { ob = &tmp; opos0 = 0; }
        ZSTD_inBuffer in = {src.p, consumed + slice, consumed};
        vf::Buf* slicebuf = nullptr;
        if (flavor != F_STABLE_IN && t.chance(30)) {
            // present the slice from its own exact-size block (reads past the slice become ASan reports)
            slicebuf = new vf::Buf(src.p + consumed, slice);
            in.src = slicebuf->p; in.size = slice; in.pos = 0;
        }
        size_t ipos0 = in.pos;
        ZSTD_outBuffer out = {ob->p, cap, opos0};
        size_t r;
        res.calls++;
        if (flavor == F_LEGACY) {
            if (ending) r = ZSTD_endStream(zcs, &out);
            else if (dir == ZSTD_e_continue) r = ZSTD_compressStream(zcs, &out, &in);
            else if (dir == ZSTD_e_flush) { r = ZSTD_compressStream(zcs, &out, &in); if (!ZSTD_isError(r)) { if (in.pos == in.size) r = ZSTD_flushStream(zcs, &out); else dir = ZSTD_e_continue; } }
            else { r = ZSTD_compressStream(zcs, &out, &in); if (!ZSTD_isError(r)) { if (in.pos == in.size) r = ZSTD_endStream(zcs, &out); else dir = ZSTD_e_continue; } }
        } else if (flavor == F_ZBUFF) {
            size_t dcap = out.size - out.pos, sl = in.size - in.pos;
            if (ending) { r = ZBUFF_compressEnd(zb, (char*)out.dst + out.pos, &dcap); if (!ZSTD_isError(r)) out.pos += dcap; }
            else if (dir == ZSTD_e_continue) { r = ZBUFF_compressContinue(zb, out.dst, &dcap, (const char*)in.src + in.pos, &sl); if (!ZSTD_isError(r)) { out.pos += dcap; in.pos += sl; } }
            else {
                r = ZBUFF_compressContinue(zb, out.dst, &dcap, (const char*)in.src + in.pos, &sl);
                if (!ZSTD_isError(r)) {
                    out.pos += dcap; in.pos += sl;
                    if (in.pos == in.size) {
                        size_t d2 = out.size - out.pos;
                        r = (dir == ZSTD_e_flush) ? ZBUFF_compressFlush(zb, (char*)out.dst + out.pos, &d2) : ZBUFF_compressEnd(zb, (char*)out.dst + out.pos, &d2);
                        if (!ZSTD_isError(r)) out.pos += d2;
                    } else dir = ZSTD_e_continue;
                }
            }
        } else if (flavor == F_SIMPLE) {
            size_t op = out.pos, ip = in.pos;
            r = ZSTD_compressStream2_simpleArgs(cctx, out.dst, out.size, &op, in.src, in.size, &ip, (ZSTD_EndDirective)dir);
            out.pos = op; in.pos = ip;
        } else {
            r = ZSTD_compressStream2(cctx, &out, &in, (ZSTD_EndDirective)dir);
        }
        if (ZSTD_isError(r)) {
            if (slicebuf) delete slicebuf;
            if (stableOut) delete stableOut;
            if (zb) ZBUFF_freeCCtx(zb);
            if (is_clean_refusal(r)) c.discard("clean_refusal");
            if (flavor == F_STABLE_OUT && ZSTD_getErrorCode(r) == ZSTD_error_dstSize_tooSmall) c.discard("stableOut_tooSmall");
            c.fail("%s call #%u (dir=%d slice=%zu cap=%zu) failed: %s", flavor_name[flavor], res.calls, dir, slice, cap, ZSTD_getErrorName(r));
        }
        if (getenv("VF_TRACE")) fprintf(stderr, "enc %s #%u dir=%d slice=%zu cap=%zu -> used=%zu made=%zu ret=%zu\n", flavor_name[flavor], res.calls, dir, slice, cap, in.pos - ipos0, out.pos - opos0, r);
        // stableIn: zstd documents that it owns pos; it "pretends" to consume a partial block and rewinds
        // later (stableIn_notConsumed), so monotonicity is only demanded of the other flavours
        if (flavor == F_STABLE_IN) VF_CHECK(c, in.pos <= in.size, "stableIn: in.pos %zu > size %zu", in.pos, in.size);
        else VF_CHECK(c, in.pos >= ipos0 && in.pos <= in.size, "in.pos moved from %zu to %zu (size %zu)", ipos0, in.pos, in.size);
        VF_CHECK(c, out.pos >= opos0 && out.pos <= out.size, "out.pos moved from %zu to %zu (size %zu)", opos0, out.pos, out.size);
        size_t used = in.pos - ipos0, made = out.pos - opos0;  // (used wraps negative for a stableIn rewind; consumed += used stays exact)
        bool had_in = ipos0 < in.size, had_out = opos0 < out.size;
        // C10(a): a call with consumable input and writable output makes progress
        if (had_in && had_out) VF_CHECK(c, used || made, "%s call #%u with %zu input bytes and %zu output room made no progress (dir=%d, ret=%zu)", flavor_name[flavor], res.calls, in.size - ipos0, out.size - opos0, dir, r);
        if (!used && !made) stall++; else stall = 0;
        VF_CHECK(c, stall < 8, "%u consecutive calls without progress", stall);
        if (made) res.out.insert(res.out.end(), ob->p + opos0, ob->p + out.pos);
        if (flavor == F_STABLE_OUT) stableOutPos = out.pos;
        consumed += used;
        if (out.pos == out.size && r != 0) res.out_full++;
        if (slice && slice <= 3) res.tiny_in++;
        if (cap && cap <= 3) res.tiny_out++;
        if (slicebuf) delete slicebuf;
        if (dir == ZSTD_e_flush && r == 0 && in.pos == in.size) {
            if (consumed < x.size()) res.mid_flush++;
            res.flushes.push_back({res.out.size(), fr.dBegin + consumed, res.frames.size()});
        }
        if (ending) {
            // once the end directive is in force everything still owed is the buffered remainder, the last block and the
            // checksum: more output than compressBound(whole input)+slack means the call-until-0 loop never converges
            end_bytes += made;
            VF_CHECK(c, end_bytes <= ZSTD_compressBound(x.size()) + 4096, "end directive has produced %zu bytes for a %zu-byte frame and still returns %zu: it does not converge", end_bytes, x.size(), r);
        }
        if (dir == ZSTD_e_end) ending = true;
        if (dir == ZSTD_e_end && r == 0) {
            VF_CHECK(c, consumed == x.size(), "end directive completed with %zu of %zu bytes consumed", consumed, x.size());
            done = true;
        }
    }
    if (stableOut) delete stableOut;
    if (zb) ZBUFF_freeCCtx(zb);
    fr.cEnd = res.out.size(); fr.dEnd = fr.dBegin + x.size();
    fr.magicless = res.magicless;
    res.frames.push_back(fr);
}

// A full generated stream: 1..3 frames with optional skippable frames between.
inline EncResult gen_stream(vf::Ctx& c, ZSTD_CCtx* cctx, const EncOpts& eo) {
    vf::Tape& t = c.t;
    EncResult res;
    unsigned nframes = eo.allow_multi_frame ? (unsigned)t.weighted({6, 2, 1}) + 1 : 1;
    gen::ParamSet ps;
    int flavor = 0;
    for (unsigned fi = 0; fi < nframes; fi++) {
        if (fi == 0 || t.chance(30)) {
            ZSTD_CCtx_reset(cctx, ZSTD_reset_session_and_parameters);
            ps = gen::gen_params(t, eo.thorough);
            flavor = eo.force_flavor >= 0 ? eo.force_flavor : (int)t.weighted({8, 2, 1, 2, 2, 1, 1});
            // streams are weighted to small windows so that rings wrap within kilobytes
            if (!ps.has(ZSTD_c_windowLog) && t.chance(40)) ps.v.push_back({ZSTD_c_windowLog, t.chance(65) ? (int)t.range(10, 14) : t.chance(50) ? 17 : (int)t.range(15, 18), "windowLog"});
            if (!eo.allow_magicless || fi > 0 || nframes > 1) {
                // one format per stream: the decoder's format parameter is per stream
                std::vector<gen::PV> k; for (auto& x : ps.v) if (x.p != ZSTD_c_format) k.push_back(x); ps.v = k;
            }
            if (gen::estimate_mem(ps) > (eo.thorough ? (3ull << 30) : (700ull << 20))) c.discard("memcap");
            if (eo.allow_mt && flavor != F_BUFFERLESS && flavor != F_ZBUFF && t.chance(15)) {
                ps.v.push_back({ZSTD_c_nbWorkers, (int)t.range(1, 3), "nbWorkers"});
                if (t.flip()) ps.v.push_back({ZSTD_c_jobSize, (int)t.range(0, 2) << 20, "jobSize"});
                if (t.flip()) ps.v.push_back({ZSTD_c_overlapLog, (int)t.range(0, 9), "overlapLog"});
            }
            if (flavor == F_STABLE_IN) ps.v.push_back({ZSTD_c_stableInBuffer, 1, "stableInBuffer"});
            if (flavor == F_STABLE_OUT) ps.v.push_back({ZSTD_c_stableOutBuffer, 1, "stableOutBuffer"});
            if (flavor == F_ZBUFF || flavor == F_BUFFERLESS || flavor == F_LEGACY) {
                // these flavours take a level only
                std::vector<gen::PV> k; for (auto& x : ps.v) if (x.p == ZSTD_c_compressionLevel) k.push_back(x); ps.v = k;
            }
            if (flavor != F_ZBUFF && flavor != F_BUFFERLESS && flavor != F_LEGACY) gen::apply_params(cctx, ps, &c);
            res.magicless = ps.get(ZSTD_c_format, 0) == 1;
            res.nbWorkers = std::max(res.nbWorkers, ps.get(ZSTD_c_nbWorkers, 0));
        }
        if (fi > 0 && eo.allow_skippable && t.chance(30)) {
            // skippable frame between
            size_t n = (size_t)t.range(0, 300);
            std::vector<uint8_t> payload(n);
            t.bytes(payload.data(), std::min<size_t>(n, 16));
            vf::Buf ob(n + 8);
            size_t w = ZSTD_writeSkippableFrame(ob.p, ob.n, payload.data(), n, (unsigned)t.range(0, 15));
            VF_CHECK(c, !ZSTD_isError(w) && w == n + 8, "writeSkippableFrame(%zu) -> %s", n, ZSTD_isError(w) ? ZSTD_getErrorName(w) : "wrong size");
            Frame sk; sk.skippable = true; sk.cBegin = res.out.size();
            sk.dBegin = sk.dEnd = res.frames.empty() ? 0 : res.frames.back().dEnd;
            res.out.insert(res.out.end(), ob.p, ob.p + w);
            sk.cEnd = res.out.size();
            res.frames.push_back(sk);
        }
        int lvl = ps.get(ZSTD_c_compressionLevel, 3), strat = ps.get(ZSTD_c_strategy, 0);
        size_t maxsz = eo.max_content;
        if (lvl >= 16 || strat >= 7) maxsz = std::min<size_t>(maxsz, 256u << 10);
        size_t wl = (size_t)ps.get(ZSTD_c_windowLog, 0);
        gen::ContentInfo ci;
        // with a window in force, half of the frames are several windows long: the internal input ring wraps more than once
        bool longer = wl && (((size_t)2 << wl) + (128u << 10)) < maxsz && t.flip();
        bool ring = longer && wl >= 17 && t.flip();
        if (ring) c.label("content_ring_stress");
        std::vector<uint8_t> x = ring ? gen::gen_ring_stress(t, (size_t)t.range(((size_t)2 << wl) + (128u << 10), maxsz), (size_t)1 << wl) : longer ? gen::gen_content_sized(t, (size_t)t.range(((size_t)2 << wl) + (128u << 10), maxsz), &ci, (size_t)1 << wl)
                                        : gen::gen_content(t, maxsz, &ci, wl ? (size_t)1 << wl : 0);
        if (eo.allow_abandon && (flavor == F_CS2 || flavor == F_SIMPLE || flavor == F_LEGACY) && !x.empty() && t.chance(20)) {
            // an abandoned frame first: a few calls with a starved output so that compressed bytes stay held inside the
            // context, then a session reset; its output is thrown away. The real frame must not notice.
            if (flavor == F_LEGACY) ZSTD_initCStream(cctx, lvl);
            size_t pos = 0; unsigned ncalls = (unsigned)t.range(1, 6);
            bool held = false;
            for (unsigned i = 0; i < ncalls; i++) {
                size_t n = std::min(x.size() - pos, gen_chunk(t));
                size_t cap = (size_t)t.range(0, 40);
                vf::Buf ob(cap);
                ZSTD_inBuffer in = {x.data() + pos, n, 0};
                ZSTD_outBuffer out = {ob.p, cap, 0};
                size_t r = ZSTD_compressStream2(cctx, &out, &in, t.flip() ? ZSTD_e_flush : ZSTD_e_continue);
                if (ZSTD_isError(r)) break;
                if (r > 0) held = true;
                pos += in.pos;
            }
            size_t rr = ZSTD_CCtx_reset(cctx, ZSTD_reset_session_only);
            VF_CHECK(c, !ZSTD_isError(rr), "session reset of an abandoned frame failed: %s", ZSTD_getErrorName(rr));
            c.label(held ? "abandoned_frame_with_held_output" : "abandoned_frame");
            c.note("[abandoned %zu bytes] ", pos);
            res.abandoned++;
        }
        if (eo.allow_abandon && flavor == F_STABLE_IN && !x.empty() && t.chance(20)) {
            // stable-input flavour: an abandoned frame made of a few growing e_continue calls over ANOTHER stable buffer
            // (small ones are only recorded by the library, not compressed yet), then a session reset
            std::vector<uint8_t> other(x.begin(), x.begin() + std::min<size_t>(x.size(), (size_t)t.range(1, 300000)));
            size_t pos = 0, size = 0; unsigned ncalls = (unsigned)t.range(1, 4);
            for (unsigned i = 0; i < ncalls && size < other.size(); i++) {
                size = std::min(other.size(), size + 1 + gen_chunk(t));
                vf::Buf ob((size_t)t.range(0, 200000));
                ZSTD_inBuffer in = {other.data(), size, pos};
                ZSTD_outBuffer out = {ob.p, ob.n, 0};
                size_t r = ZSTD_compressStream2(cctx, &out, &in, ZSTD_e_continue);
                if (ZSTD_isError(r)) break;
                pos = in.pos;
            }
            size_t rr = ZSTD_CCtx_reset(cctx, ZSTD_reset_session_only);
            VF_CHECK(c, !ZSTD_isError(rr), "session reset of an abandoned stable-input frame failed: %s", ZSTD_getErrorName(rr));
            c.label("abandoned_frame_stable_input");
            c.note("[abandoned stableIn %zu bytes] ", pos);
            res.abandoned++;
        }
        c.note("frame%u{%s %s %s} ", fi, flavor_name[flavor], ps.str().c_str(), ci.summary().c_str());
        c.label(std::string("enc_flavor:") + flavor_name[flavor]);
        encode_frame(c, cctx, eo, flavor, ps, x, res);
    }
    return res;
}

enum DecFlavor { D_STREAM = 0, D_STABLE_OUT, D_SIMPLE, D_ZBUFF, D_NFLAVORS };
static const char* dflavor_name[] = {"decompressStream", "stableOut", "simpleArgs", "ZBUFF"};

struct DecStats { unsigned calls = 0, tiny_in = 0, tiny_out = 0, out_full = 0, hdr_split = 0; };

// Decode the whole stream under a generated segmentation; checks per-call rules and frame-completion signalling.
inline std::vector<uint8_t> decode_stream(vf::Ctx& c, ZSTD_DCtx* dctx, const EncResult& er, int dflavor, DecStats* ds, size_t upto = (size_t)-1) {
    vf::Tape& t = c.t;
    const std::vector<uint8_t>& cs = er.out;
    size_t csN = std::min(upto, cs.size());
    std::vector<uint8_t> regen;
    size_t total = er.frames.empty() ? 0 : er.frames.back().dEnd;
    ZSTD_DCtx_reset(dctx, ZSTD_reset_session_and_parameters);
    if (er.magicless) ZSTD_DCtx_setParameter(dctx, ZSTD_d_format, ZSTD_f_zstd1_magicless);
    ZSTD_DCtx_setParameter(dctx, ZSTD_d_windowLogMax, 31);
    // decoder-side parameters that must not change what is decoded nor where a frame ends
    if (t.chance(25)) { ZSTD_DCtx_setParameter(dctx, ZSTD_d_forceIgnoreChecksum, 1); c.label("dec_param:forceIgnoreChecksum"); }
    if (t.chance(10)) { ZSTD_DCtx_setParameter(dctx, ZSTD_d_disableHuffmanAssembly, 1); c.label("dec_param:disableHuffmanAssembly"); }
    ZBUFF_DCtx* zb = nullptr;
    vf::Buf* stable = nullptr;
    size_t stablePos = 0;
    if (dflavor == D_STABLE_OUT) {
        ZSTD_DCtx_setParameter(dctx, ZSTD_d_stableOutBuffer, 1);
    }
    if (dflavor == D_ZBUFF) { zb = ZBUFF_createDCtx(); ZBUFF_decompressInit(zb); }
    size_t cpos = 0;
    size_t fidx = 0;  // index of the frame being decoded
    unsigned stall = 0;
    vf::Buf src(cs.data(), csN);
    auto cleanup = [&]() { if (zb) ZBUFF_freeDCtx(zb); if (stable) delete stable; };
    while (cpos < csN || (fidx < er.frames.size() && regen.size() < er.frames[fidx].dEnd)) {
        while (fidx < er.frames.size() && cpos >= er.frames[fidx].cEnd && regen.size() >= er.frames[fidx].dEnd) fidx++;
        if (fidx >= er.frames.size()) break;
        const Frame& fr = er.frames[fidx];
        if (dflavor == D_STABLE_OUT && (!stable)) {
            // one stable buffer per frame, sized to the frame content (+slack)
            stable = new vf::Buf(fr.dEnd - fr.dBegin + (size_t)t.range(0, 16));
            stablePos = 0;
        }
        size_t slice = std::min(csN - cpos, gen_chunk(t));
        size_t cap = gen_chunk(t);
        if (stall) { if (slice == 0) slice = std::min<size_t>(csN - cpos, 1 + (size_t)t.range(0, 20)); if (cap == 0) cap = 1 + (size_t)t.range(0, 20); }
        if (cpos == csN && slice == 0 && cap == 0) cap = 1;
        if (t.exhausted()) { slice = csN - cpos; cap = 1u << 17; }
        vf::Buf tmp(dflavor == D_STABLE_OUT ? 0 : cap);
        ZSTD_inBuffer in = {src.p, cpos + slice, cpos};
        vf::Buf* slicebuf = nullptr;
        if (t.chance(30)) { slicebuf = new vf::Buf(src.p + cpos, slice); in.src = slicebuf->p; in.size = slice; in.pos = 0; }
        size_t ipos0 = in.pos;
        ZSTD_outBuffer out;
        if (dflavor == D_STABLE_OUT) out = {stable->p, stable->n, stablePos}; else out = {tmp.p, cap, 0};
        size_t opos0 = out.pos;
        size_t r;
        ds->calls++;
        if (dflavor == D_ZBUFF) {
            size_t dcap = out.size - out.pos, sl = in.size - in.pos;
            r = ZBUFF_decompressContinue(zb, (char*)out.dst + out.pos, &dcap, (const char*)in.src + in.pos, &sl);
            if (!ZSTD_isError(r)) { out.pos += dcap; in.pos += sl; }
        } else if (dflavor == D_SIMPLE) {
            size_t op = out.pos, ip = in.pos;
            r = ZSTD_decompressStream_simpleArgs(dctx, out.dst, out.size, &op, in.src, in.size, &ip);
            out.pos = op; in.pos = ip;
        } else {
            r = ZSTD_decompressStream(dctx, &out, &in);
        }
        if (ZSTD_isError(r)) {
            if (slicebuf) delete slicebuf;
            cleanup();
            if (ZSTD_getErrorCode(r) == ZSTD_error_memory_allocation) c.discard("dec_memory");
            if (upto != (size_t)-1) throw r;  // caller decides (prefix decoding)
            c.fail("%s call #%u (slice=%zu cap=%zu, cpos=%zu/%zu, regen=%zu) failed: %s", dflavor_name[dflavor], ds->calls, slice, cap, cpos, csN, regen.size(), ZSTD_getErrorName(r));
        }
        if (getenv("VF_TRACE")) fprintf(stderr, "dec %s #%u slice=%zu cap=%zu -> used=%zu made=%zu ret=%zu\n", dflavor_name[dflavor], ds->calls, slice, cap, in.pos - ipos0, out.pos - opos0, r);
        VF_CHECK(c, in.pos >= ipos0 && in.pos <= in.size, "decoder in.pos %zu -> %zu (size %zu)", ipos0, in.pos, in.size);
        VF_CHECK(c, out.pos >= opos0 && out.pos <= out.size, "decoder out.pos %zu -> %zu (size %zu)", opos0, out.pos, out.size);
        size_t used = in.pos - ipos0, made = out.pos - opos0;
        if (ipos0 < in.size && opos0 < out.size) VF_CHECK(c, used || made, "decoder call #%u with input %zu and room %zu made no progress (ret %zu)", ds->calls, in.size - ipos0, out.size - opos0, r);
        if (!used && !made) stall++; else stall = 0;
        VF_CHECK(c, stall < 8, "decoder: %u consecutive calls without progress at cpos=%zu/%zu regen=%zu/%zu", stall, cpos, csN, regen.size(), total);
        regen.insert(regen.end(), (uint8_t*)out.dst + opos0, (uint8_t*)out.dst + out.pos);
        if (dflavor == D_STABLE_OUT) stablePos = out.pos;
        cpos += used;
        if (slice && slice <= 3) ds->tiny_in++;
        if (cap && cap <= 3 && dflavor != D_STABLE_OUT) ds->tiny_out++;
        if (out.pos == out.size && r != 0) ds->out_full++;
        if (cpos > fr.cBegin && cpos < fr.cBegin + 18 && cpos < fr.cEnd && used) ds->hdr_split++;
        if (slicebuf) delete slicebuf;
        // frame-completion signalling
        VF_CHECK(c, cpos <= fr.cEnd, "decoder consumed %zu, past the end %zu of frame %zu in one call", cpos, fr.cEnd, fidx);
        VF_CHECK(c, regen.size() <= fr.dEnd, "decoder produced %zu bytes, frame %zu ends at %zu", regen.size(), fidx, fr.dEnd);
        bool at_end = (cpos == fr.cEnd);
        if (upto == (size_t)-1 || fr.cEnd <= csN) {
            if (r == 0) {
                VF_CHECK(c, at_end && regen.size() == fr.dEnd, "decompressStream returned 0 at consumed=%zu produced=%zu but frame %zu ends at (%zu,%zu)", cpos, regen.size(), fidx, fr.cEnd, fr.dEnd);
            }
            if (at_end && (used || made)) {
                VF_CHECK(c, regen.size() == fr.dEnd, "all %zu bytes of frame %zu consumed but only %zu of %zu regenerated (hostage byte rule)", fr.cEnd - fr.cBegin, fidx, regen.size() - fr.dBegin, fr.dEnd - fr.dBegin);
                VF_CHECK(c, r == 0, "frame %zu fully consumed and flushed (c=%zu d=%zu) but decompressStream returned %zu, not 0", fidx, cpos, regen.size(), r);
            }
        } else if (r == 0) {
            VF_CHECK(c, false, "decompressStream returned 0 inside a truncated frame (cpos=%zu of cut %zu, frame ends %zu)", cpos, csN, fr.cEnd);
        }
        if (r == 0 && dflavor == D_STABLE_OUT) { delete stable; stable = nullptr; }
        if (cpos == csN && upto != (size_t)-1 && !used && !made) break;
    }
    cleanup();
    return regen;
}

}  // namespace se
