// vf.h - the harness side of the property engine.
//
// A *case* is a tape of uint16 choices.  Every generator is an ordinary
// function that draws from vf::Tape; the tape comes from rapidcheck (random
// generation + shrinking), from libFuzzer (coverage-guided bytes) or from a
// file (replay).  An exhausted tape yields 0, and every generator is written so
// that 0 is its simplest choice, so *any* byte string is a valid case and
// shorter/smaller tapes mean simpler cases.
//
// No clock, RNG or address is consulted inside a property.
#pragma once
#include <cstdint>
#include <cstddef>
#include <cstdio>
#include <cstdlib>
#include <cstring>
#include <cstdarg>
#include <string>
#include <vector>
#include <map>
#include <unordered_set>
#include <initializer_list>
#include <algorithm>

namespace vf {

struct Failure { std::string msg; };
struct Discard { std::string why; };

struct Tape {
    const uint16_t* d = nullptr;
    size_t n = 0;
    size_t pos = 0;
    size_t back = 0;  // elements consumed from the end (fuzz-style control words)
    bool odd_bytes = false;  // the byte input had odd length: the last element's high byte is padding

    uint32_t raw() {
        uint32_t v = (pos + back < n) ? d[pos] : 0;
        pos++;
        return v;
    }
    uint32_t raw_back() {
        uint32_t v = (pos + back < n) ? d[n - 1 - back] : 0;
        back++;
        return v;
    }
    bool exhausted() const { return pos + back >= n; }
    size_t remaining() const { return pos + back >= n ? 0 : n - pos - back; }
    size_t consumed() const { return std::min(pos, n); }

    // inclusive range; 0 on the tape maps to lo
    uint64_t range(uint64_t lo, uint64_t hi) {
        if (hi <= lo) return lo;
        uint64_t span = hi - lo;
        uint64_t v = raw();
        if (span > 0xFFFFull) v |= (uint64_t)raw() << 16;
        if (span > 0xFFFFFFFFull) { v |= (uint64_t)raw() << 32; v |= (uint64_t)raw() << 48; }
        if (span == UINT64_MAX) return v;
        return lo + v % (span + 1);
    }
    uint64_t range_back(uint64_t lo, uint64_t hi) {
        if (hi <= lo) return lo;
        uint64_t span = hi - lo;
        uint64_t v = raw_back();
        if (span > 0xFFFFull) v |= (uint64_t)raw_back() << 16;
        return lo + v % (span + 1);
    }
    int irange(int lo, int hi) { return (int)((int64_t)lo + (int64_t)range(0, (uint64_t)((int64_t)hi - (int64_t)lo))); }
    bool flip() { return range(0, 1) != 0; }
    // true with probability pct/100; 0 on the tape -> false
    bool chance(unsigned pct) { return (range(0, 99)) >= 100 - pct; }
    // index by weights; weight list order matters: index 0 is the "simplest"
    size_t weighted(std::initializer_list<unsigned> w) {
        unsigned tot = 0;
        for (unsigned x : w) tot += x;
        unsigned r = (unsigned)range(0, tot - 1);
        size_t i = 0;
        for (unsigned x : w) { if (r < x) return i; r -= x; i++; }
        return w.size() - 1;
    }
    template <class T> T pick(std::initializer_list<T> l) {
        size_t i = (size_t)range(0, l.size() - 1);
        return *(l.begin() + i);
    }
    void bytes(uint8_t* dst, size_t len) {
        for (size_t i = 0; i + 1 < len; i += 2) { uint32_t v = raw(); dst[i] = (uint8_t)v; dst[i + 1] = (uint8_t)(v >> 8); }
        if (len & 1) dst[len - 1] = (uint8_t)raw();
    }
    // the unread middle of the tape as raw bytes (fuzz targets: payload)
    std::vector<uint8_t> rest_bytes(size_t nbytes_total_hint = 0) {
        std::vector<uint8_t> v;
        size_t r = remaining();
        v.resize(r * 2);
        if (r) memcpy(v.data(), d + pos, r * 2);
        if (r && odd_bytes && back == 0) v.pop_back();   // drop the padding byte of an odd-length input
        pos += r;
        (void)nbytes_total_hint;
        return v;
    }
};

struct Stats {
    uint64_t cases = 0, pass = 0, discard = 0, fail = 0, nontrivial = 0;
    std::map<std::string, uint64_t> labels;
    std::map<std::string, uint64_t> maxima;
    std::unordered_set<uint64_t> nt_hashes;
    std::vector<std::string> samples;
    size_t max_samples = 6;
};
Stats& stats();
void dump_stats();  // writes $VF_OUT/stats.json and nt.bin

struct Ctx {
    Tape t;
    std::string desc;
    bool nontrivial = false;
    bool odd_tail_byte = false;  // fuzz input had an odd length
    uint8_t tail_byte = 0;
    void label(const std::string& l, uint64_t by = 1) { stats().labels[l] += by; }
    void maxi(const std::string& l, uint64_t v) { auto& m = stats().maxima[l]; if (v > m) m = v; }
    void note(const char* fmt, ...) __attribute__((format(printf, 2, 3))) {
        char buf[1024];
        va_list ap; va_start(ap, fmt); vsnprintf(buf, sizeof buf, fmt, ap); va_end(ap);
        if (desc.size() < 4000) desc += buf;
    }
    [[noreturn]] void fail(const char* fmt, ...) __attribute__((format(printf, 2, 3))) {
        char buf[2048];
        va_list ap; va_start(ap, fmt); vsnprintf(buf, sizeof buf, fmt, ap); va_end(ap);
        throw Failure{buf};
    }
    [[noreturn]] void discard(const char* why) { throw Discard{why}; }
};

#define VF_CHECK(c, cond, ...) do { if (!(cond)) (c).fail(__VA_ARGS__); } while (0)

// exact-size heap block: ASan redzone starts at byte n
struct Buf {
    uint8_t* p; size_t n;
    explicit Buf(size_t n_) : p((uint8_t*)malloc(n_ ? n_ : 0)), n(n_) { if (!p) p = (uint8_t*)malloc(1); }
    Buf(const void* src, size_t n_) : Buf(n_) { if (n_) memcpy(p, src, n_); }
    Buf(const Buf&) = delete; Buf& operator=(const Buf&) = delete;
    Buf(Buf&& o) : p(o.p), n(o.n) { o.p = nullptr; o.n = 0; }
    ~Buf() { free(p); }
    uint8_t* data() { return p; } size_t size() const { return n; }
};

inline uint64_t fnv64(const void* p, size_t n, uint64_t h = 0xcbf29ce484222325ull) {
    const uint8_t* b = (const uint8_t*)p;
    for (size_t i = 0; i < n; i++) { h ^= b[i]; h *= 0x100000001b3ull; }
    return h;
}

// run one case through the harness' property; returns 0 pass, 1 fail, 2 discard.
// msg receives the failure message.
int run_case(const uint16_t* d, size_t n, std::string* msg, bool fuzz_entry, bool odd_bytes = false);

}  // namespace vf

// ---- provided by each harness ----
const char* vf_property_id();
void vf_case(vf::Ctx& c);
// optional: different decoding of libFuzzer bytes (weak default forwards to vf_case)
void vf_fuzz_case(vf::Ctx& c);
// optional: one-time setup (weak default does nothing)
void vf_setup();
