// vf_core.cpp - case execution, statistics, crash bookkeeping (no test library here)
#include "vf.h"
#include <unistd.h>
#include <fcntl.h>
#include <signal.h>

extern "C" void __sanitizer_set_death_callback(void (*)(void)) __attribute__((weak));

namespace vf {

static Stats g_stats;
Stats& stats() { return g_stats; }

static const uint16_t* g_cur = nullptr;
static size_t g_cur_n = 0;
static std::string g_out;
static bool g_in_case = false;
static Ctx* g_ctx = nullptr;

static const char* outdir() {
    if (g_out.empty()) {
        const char* e = getenv("VF_OUT");
        g_out = e ? e : ".";
    }
    return g_out.c_str();
}

static void write_file(const char* name, const void* p, size_t n) {
    std::string path = std::string(outdir()) + "/" + name;
    int fd = open(path.c_str(), O_WRONLY | O_CREAT | O_TRUNC, 0644);
    if (fd < 0) return;
    const char* b = (const char*)p;
    while (n) { ssize_t w = write(fd, b, n); if (w <= 0) break; b += w; n -= (size_t)w; }
    close(fd);
}

static std::string jesc(const std::string& s) {
    std::string o;
    for (unsigned char ch : s) {
        if (ch == '"' || ch == '\\') { o += '\\'; o += (char)ch; }
        else if (ch == '\n') o += "\\n";
        else if (ch < 0x20 || ch >= 0x7f) { char b[8]; snprintf(b, sizeof b, "\\u%04x", ch); o += b; }
        else o += (char)ch;
    }
    return o;
}

void dump_stats() {
    Stats& s = g_stats;
    std::string j = "{";
    char b[256];
    snprintf(b, sizeof b, "\"cases\":%llu,\"pass\":%llu,\"discard\":%llu,\"fail\":%llu,\"nontrivial\":%llu,\"distinct_nontrivial\":%llu,",
             (unsigned long long)s.cases, (unsigned long long)s.pass, (unsigned long long)s.discard,
             (unsigned long long)s.fail, (unsigned long long)s.nontrivial, (unsigned long long)s.nt_hashes.size());
    j += b;
    j += "\"labels\":{";
    bool first = true;
    for (auto& kv : s.labels) {
        if (!first) j += ",";
        first = false;
        snprintf(b, sizeof b, "\":%llu", (unsigned long long)kv.second);
        j += "\"" + jesc(kv.first) + b;
    }
    j += "},\"maxima\":{";
    first = true;
    for (auto& kv : s.maxima) {
        if (!first) j += ",";
        first = false;
        snprintf(b, sizeof b, "\":%llu", (unsigned long long)kv.second);
        j += "\"" + jesc(kv.first) + b;
    }
    j += "},\"samples\":[";
    first = true;
    for (auto& sm : s.samples) {
        if (!first) j += ",";
        first = false;
        j += "\"" + jesc(sm) + "\"";
    }
    j += "]}\n";
    write_file("stats.json", j.data(), j.size());
    std::vector<uint64_t> hs(s.nt_hashes.begin(), s.nt_hashes.end());
    write_file("nt.bin", hs.data(), hs.size() * 8);
}

static void on_death() {
    // a sanitizer report or failed assert: keep the tape that was executing
    if (g_in_case && g_cur) write_file("crash.tape", g_cur, g_cur_n * 2);
    if (g_in_case && g_ctx) { write_file("crash.txt", g_ctx->desc.data(), g_ctx->desc.size()); fprintf(stderr, "VF-CRASH-CASE %s\n", g_ctx->desc.c_str()); }
    dump_stats();
}

static void on_abort(int) {
    on_death();
    signal(SIGABRT, SIG_DFL);
    raise(SIGABRT);
}

static bool g_installed = false;
static void install() {
    if (g_installed) return;
    g_installed = true;
    if (__sanitizer_set_death_callback) __sanitizer_set_death_callback(on_death);
    else { signal(SIGABRT, on_abort); signal(SIGSEGV, on_abort); signal(SIGBUS, on_abort); signal(SIGFPE, on_abort); signal(SIGILL, on_abort); }
    vf_setup();
}

int run_case(const uint16_t* d, size_t n, std::string* msg, bool fuzz_entry, bool odd_bytes) {
    install();
    Ctx c;
    c.t.d = d; c.t.n = n; c.t.odd_bytes = odd_bytes;
    g_cur = d; g_cur_n = n; g_in_case = true; g_ctx = &c;
    int rc = 0;
    g_stats.cases++;
    try {
        if (fuzz_entry) vf_fuzz_case(c); else vf_case(c);
        g_stats.pass++;
    } catch (Failure& f) {
        rc = 1; g_stats.fail++;
        if (msg) *msg = f.msg + "\n  case: " + c.desc;
        // the whole tape is kept: generators may consult exhausted(), so a truncated tape is a different case
        write_file("fail.tape", d, n * 2);
        std::string m = f.msg + "\ncase: " + c.desc + "\n";
        write_file("fail.txt", m.data(), m.size());
    } catch (Discard& dd) {
        rc = 2; g_stats.discard++;
        g_stats.labels[std::string("discard:") + dd.why]++;
    }
    g_in_case = false; g_ctx = nullptr;
    if (rc == 0 && c.nontrivial) {
        g_stats.nontrivial++;
        size_t keep = c.t.back ? n : std::min(n, c.t.pos);
        uint64_t h = fnv64(d, keep * 2);
        bool fresh = g_stats.nt_hashes.insert(h).second;
        if (fresh && g_stats.samples.size() < g_stats.max_samples && !c.desc.empty())
            g_stats.samples.push_back(c.desc);
    }
    return rc;
}

}  // namespace vf

__attribute__((weak)) void vf_fuzz_case(vf::Ctx& c) { vf_case(c); }
__attribute__((weak)) void vf_setup() {}
