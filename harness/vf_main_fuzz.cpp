// vf_main_fuzz.cpp - libFuzzer entry: the fuzz bytes ARE the tape (LE uint16 each).
#include "vf.h"
#include <unistd.h>

static bool g_reg = false;
static void at_exit_dump() { vf::dump_stats(); }

extern "C" int LLVMFuzzerTestOneInput(const uint8_t* data, size_t size) {
    if (!g_reg) { g_reg = true; atexit(at_exit_dump); }
    std::vector<uint16_t> t((size + 1) / 2);
    if (size) memcpy(t.data(), data, size);  // little-endian host
    std::string msg;
    int rc = vf::run_case(t.data(), t.size(), &msg, true, (size & 1) != 0);
    if ((vf::stats().cases & 1023) == 0) vf::dump_stats();
    if (rc == 1) {
        fprintf(stderr, "VF-FAIL %s\n", msg.c_str());
        vf::dump_stats();
        __builtin_trap();
    }
    return 0;
}
