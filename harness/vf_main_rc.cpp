// vf_main_rc.cpp - rapidcheck driver + tape replay.
//   harness                 run rapidcheck (configured only through RC_PARAMS)
//   harness --replay FILE   run one tape, exit 0 pass / 1 fail / 3 discard
// Environment: VF_OUT (directory for stats.json, fail.tape, crash.tape),
//              VF_TAPE_MAX (max tape length at full size, default 1024),
//              VF_SHRINK_BUDGET (max property executions after first failure)
#include <rapidcheck.h>
#include "vf.h"
#include <fstream>
#include <ctime>

static size_t g_tape_max = 1024;
static long g_shrink_budget = 4000;
static bool g_failed_once = false;
static long g_after_fail = 0;
static long g_shrink_secs = 240;   // wall-clock cap on shrinking only (never on the verdict): heavy cases must not delay the report
static time_t g_fail_time = 0;
static std::string g_last_msg;

static std::vector<uint16_t> read_tape(const char* path) {
    std::vector<uint16_t> t;
    FILE* f = fopen(path, "rb");
    if (!f) { perror(path); exit(4); }
    uint8_t b[2];
    size_t r;
    while ((r = fread(b, 1, 2, f)) > 0) { t.push_back((uint16_t)(b[0] | (r > 1 ? b[1] << 8 : 0))); }
    fclose(f);
    return t;
}

static void save_cur(const std::vector<uint16_t>& t) {
    // the case about to run, so that a hang or a hard kill still leaves its tape
    static std::string path;
    if (path.empty()) { const char* e = getenv("VF_OUT"); path = std::string(e ? e : ".") + "/cur.tape"; }
    FILE* f = fopen(path.c_str(), "wb");
    if (f) { if (!t.empty()) fwrite(t.data(), 2, t.size(), f); fclose(f); }
}

int main(int argc, char** argv) {
    if (const char* e = getenv("VF_TAPE_MAX")) g_tape_max = (size_t)atol(e);
    if (const char* e = getenv("VF_SHRINK_BUDGET")) g_shrink_budget = atol(e);
    if (const char* e = getenv("VF_SHRINK_SECONDS")) g_shrink_secs = atol(e);
    if (argc >= 3 && !strcmp(argv[1], "--replay")) {
        int worst = 0;
        for (int i = 2; i < argc; i++) {
            auto t = read_tape(argv[i]);
            std::string msg;
            int rc = vf::run_case(t.data(), t.size(), &msg, false);
            if (rc == 1) { printf("REPLAY-FAIL %s: %s\n", argv[i], msg.c_str()); worst = 1; }
            else if (rc == 2) { printf("REPLAY-DISCARD %s\n", argv[i]); if (!worst) worst = 3; }
            else printf("REPLAY-PASS %s\n", argv[i]);
        }
        vf::dump_stats();
        return worst;
    }
    bool ok = rc::check(vf_property_id(), [] {
        // tape length follows rapidcheck's size; elements are always full range
        auto tape = *rc::gen::withSize([](int size) {
            int cap = 8 + (int)((long)size * (long)g_tape_max / 100);
            return rc::gen::resize(cap, rc::gen::container<std::vector<uint16_t>>(
                                            rc::gen::resize(100, rc::gen::arbitrary<uint16_t>())));
        });
        if (g_failed_once && (++g_after_fail > g_shrink_budget || time(nullptr) - g_fail_time > g_shrink_secs)) return;  // stop shrinking, keep best
        std::string msg;
        save_cur(tape);
        int rc = vf::run_case(tape.data(), tape.size(), &msg, false);
        if ((vf::stats().cases & 63) == 0) vf::dump_stats();
        if (rc == 1) { if (!g_failed_once) g_fail_time = time(nullptr); g_failed_once = true; g_last_msg = msg; RC_FAIL(msg); }
    });
    vf::dump_stats();
    if (!ok) printf("VF-FAIL %s\n", g_last_msg.c_str());
    return ok ? 0 : 1;
}
