/*
 * selftest.c - self test of the decoding oracle R (edu.c) and of vxxh64.
 *
 * Build and run (the ASan libzstd archive is printed by tools/build.py):
 *
 *   A=$(python3 /verif/tools/build.py asan | awk '{print $2}')
 *   clang -g -O1 -fsanitize=address,undefined -fno-sanitize-recover=undefined \
 *         -I/repo/lib -I/verif/oracle -I/verif/oracle/edu \
 *         /verif/oracle/edu/edu.c /verif/oracle/xxh64.c /verif/oracle/edu/selftest.c \
 *         $A -lpthread -o /verif/oracle/edu/selftest.bin
 *   ASAN_OPTIONS=allocator_may_return_null=1 /verif/oracle/edu/selftest.bin [seed] [nb_roundtrips] [nb_mutations]
 *
 * Checks
 *  (a) vxxh64 against the published vectors and against the library's XXH64
 *      (the cross-check exists only here; the oracle never calls the library)
 *  (b) golden-decompression/ files decode in strict mode to the library's bytes,
 *      golden-decompression-errors/ files are rejected in strict mode,
 *      golden-compression/ files compressed at levels 1, 3, 19 decode identically
 *  (c) N pseudo-random inputs compressed by the library with random
 *      parameters (level -5..19, windowLog 10..20, checksum, dictionaries,
 *      magicless, flushes, concatenation with skippable frames) decode in
 *      strict mode to the original bytes, with a self-consistent event stream
 *  (d) M random single-byte mutations (plus truncations) of such frames never
 *      crash, strict or not
 *  (e) edu_default_table equals Appendix A of the format specification
 *  (f) hand-made frames: the window / dictionary offset rule at its boundaries and the frame and
 *      block header rules, strict and non-strict, with the library's verdict next to R's
 * Prints a summary, exits 0 on success.
 */
#define ZSTD_STATIC_LINKING_ONLY
#include "zstd.h"
#include "common/xxhash.h" /* the library's XXH64 (symbol ZSTD_XXH64), cross-check only */

#include "edu.h"
#include "xxh64.h"

#include <dirent.h>
#include <stdint.h>
#include <stdio.h>
#include <stdlib.h>
#include <string.h>
#include <time.h>

static int g_failures = 0;
#define FAIL(...)                                                              \
    do {                                                                       \
        g_failures++;                                                          \
        fprintf(stderr, "FAIL %s:%d: ", __FILE__, __LINE__);                   \
        fprintf(stderr, __VA_ARGS__);                                          \
        fprintf(stderr, "\n");                                                 \
        if (g_failures > 50) {                                                 \
            fprintf(stderr, "too many failures\n");                            \
            exit(1);                                                           \
        }                                                                      \
    } while (0)
#define CHECK(c, ...)                                                          \
    do {                                                                       \
        if (!(c)) FAIL(__VA_ARGS__);                                           \
    } while (0)

/* ---- PRNG --------------------------------------------------------------- */
static uint64_t g_rng = 0x9E3779B97F4A7C15ULL;
static uint64_t rnd64(void) {
    uint64_t x = g_rng;
    x ^= x << 13;
    x ^= x >> 7;
    x ^= x << 17;
    g_rng = x;
    return x * 0x2545F4914F6CDD1DULL;
}
static uint32_t rnd(uint32_t n) { return n ? (uint32_t)((rnd64() >> 32) % n) : 0; }
static int rnd_range(int lo, int hi) { return lo + (int)rnd((uint32_t)(hi - lo + 1)); }

static double now(void) {
    struct timespec ts;
    clock_gettime(CLOCK_MONOTONIC, &ts);
    return (double)ts.tv_sec + (double)ts.tv_nsec * 1e-9;
}

/* ---- files -------------------------------------------------------------- */
static unsigned char* read_file(const char* path, size_t* len) {
    FILE* f = fopen(path, "rb");
    if (!f) return NULL;
    fseek(f, 0, SEEK_END);
    long n = ftell(f);
    fseek(f, 0, SEEK_SET);
    unsigned char* p = malloc(n > 0 ? (size_t)n : 1);
    if (n > 0 && fread(p, 1, (size_t)n, f) != (size_t)n) {
        fclose(f);
        free(p);
        return NULL;
    }
    fclose(f);
    *len = (size_t)n;
    return p;
}

typedef struct { char path[512]; } path_t;
static int list_dir(const char* dir, path_t* out, int max) {
    DIR* d = opendir(dir);
    int n = 0;
    if (!d) return 0;
    struct dirent* e;
    while ((e = readdir(d)) != NULL && n < max) {
        if (e->d_name[0] == '.') continue;
        snprintf(out[n].path, sizeof(out[n].path), "%s/%s", dir, e->d_name);
        n++;
    }
    closedir(d);
    return n;
}

/* ---- event stream checker ------------------------------------------------ */
typedef struct {
    /* expectations */
    int have_dict;
    /* state */
    int in_frame;
    int errors;
    char first_error[200];
    unsigned long long frame_regen;     /* sum of block_regen in the current frame */
    unsigned long long total_regen;     /* sum over all frames */
    unsigned long long window;
    unsigned expect_block_index;
    int saw_last;
    /* current compressed block */
    int in_cblock;                      /* after LITERALS, before BLOCK */
    size_t lit_regen;
    unsigned long long sum_ll, sum_ml;
    size_t nb_seq_announced, nb_seq_seen;
    int seq_header_seen;
    int tables_seen;
    unsigned long long position;        /* running position in frame */
    /* statistics */
    unsigned long n_frames, n_skippable, n_blocks[3], n_seq, n_from_dict, n_lit[4], n_mode[3][4],
        n_huf_fse, n_huf_direct, n_streams4, n_repcode, n_offset_eq_window;
    /* first frame header, to compare with the library's parser */
    int got_header;
    edu_event_t header;
} evcheck_t;

static void ev_err(evcheck_t* c, const char* msg) {
    if (!c->errors) snprintf(c->first_error, sizeof(c->first_error), "%s", msg);
    c->errors++;
}

static void ev_cb(void* opaque, const edu_event_t* ev) {
    evcheck_t* c = (evcheck_t*)opaque;
    switch (ev->kind) {
    case EDU_EV_FRAME_HEADER:
        if (c->in_frame) ev_err(c, "FRAME_HEADER inside a frame");
        c->in_frame = 1;
        c->frame_regen = 0;
        c->window = ev->window_size;
        c->expect_block_index = 0;
        c->saw_last = 0;
        c->position = 0;
        c->in_cblock = 0;
        if (!c->got_header) { c->got_header = 1; c->header = *ev; }
        if (ev->single_segment && (!ev->has_fcs || ev->window_size != ev->fcs)) ev_err(c, "single segment: window != fcs");
        if (ev->header_size < 2 || ev->header_size > 14) ev_err(c, "header_size out of 2..14");
        break;
    case EDU_EV_SKIPPABLE:
        if (c->in_frame) ev_err(c, "SKIPPABLE inside a frame");
        if ((ev->magic & 0xFFFFFFF0U) != 0x184D2A50U) ev_err(c, "bad skippable magic");
        c->n_skippable++;
        break;
    case EDU_EV_LITERALS:
        if (!c->in_frame || c->in_cblock) ev_err(c, "LITERALS out of place");
        c->in_cblock = 1;
        c->lit_regen = ev->lit_regen;
        c->sum_ll = c->sum_ml = 0;
        c->nb_seq_seen = 0;
        c->nb_seq_announced = 0;
        c->seq_header_seen = 0;
        c->tables_seen = 0;
        if (ev->lit_type < 0 || ev->lit_type > 3) ev_err(c, "lit_type");
        else c->n_lit[ev->lit_type]++;
        if (ev->lit_streams != 1 && ev->lit_streams != 4) ev_err(c, "lit_streams");
        if (ev->lit_streams == 4) c->n_streams4++;
        if (ev->lit_type >= 2 && (ev->huf_max_bits < 1 || ev->huf_max_bits > 11)) ev_err(c, "huf_max_bits");
        if (ev->lit_type == 2) { if (ev->huf_weights_fse) c->n_huf_fse++; else c->n_huf_direct++; }
        break;
    case EDU_EV_TABLE:
        if (!c->in_cblock || c->seq_header_seen) ev_err(c, "TABLE out of place");
        if (ev->table_which < 0 || ev->table_which > 3) { ev_err(c, "table_which"); break; }
        if (ev->table_which < 3) {
            if (c->tables_seen != ev->table_which) ev_err(c, "sequence tables out of order");
            c->tables_seen = ev->table_which + 1;
            if (ev->table_mode < 0 || ev->table_mode > 3) ev_err(c, "table_mode");
            else c->n_mode[ev->table_which][ev->table_mode]++;
            if (ev->table_mode == 2) {
                int maxlog = ev->table_which == 1 ? 8 : 9;
                if (ev->accuracy_log < 5 || ev->accuracy_log > maxlog) ev_err(c, "accuracy_log of an FSE table");
            }
            if (ev->table_mode == 0 && ev->accuracy_log != (ev->table_which == 1 ? 5 : 6)) ev_err(c, "accuracy_log of a predefined table");
            if (ev->table_mode == 1 && ev->accuracy_log != 0) ev_err(c, "accuracy_log of an RLE table");
            if (ev->bytes_after_last_table != 0 && ev->table_mode != 2) ev_err(c, "bytes_after_last_table on a non-FSE table");
        } else {
            if (c->tables_seen != 0) ev_err(c, "huffman TABLE after sequence tables");
            if (ev->table_mode == 2 && (ev->accuracy_log < 5 || ev->accuracy_log > 6)) ev_err(c, "accuracy_log of huffman weights");
        }
        break;
    case EDU_EV_SEQ_HEADER:
        if (!c->in_cblock || c->seq_header_seen) ev_err(c, "SEQ_HEADER out of place");
        c->seq_header_seen = 1;
        c->nb_seq_announced = ev->nb_seq;
        if (ev->nb_seq > 0 && c->tables_seen != 3) ev_err(c, "SEQ_HEADER without 3 TABLE events");
        if (ev->nb_seq == 0 && c->tables_seen != 0) ev_err(c, "TABLE events with nb_seq == 0");
        if (ev->nbseq_bytes < 1 || ev->nbseq_bytes > 3) ev_err(c, "nbseq_bytes");
        break;
    case EDU_EV_SEQUENCE:
        if (!c->in_cblock || !c->seq_header_seen) ev_err(c, "SEQUENCE out of place");
        c->nb_seq_seen++;
        c->sum_ll += ev->ll;
        c->sum_ml += ev->ml;
        c->position += ev->ll;
        if (ev->position != c->position) ev_err(c, "SEQUENCE.position is not the running match start");
        if (ev->ml < 3) ev_err(c, "match length < 3");
        if (ev->offset == 0) ev_err(c, "offset 0");
        if (ev->offset_value > 3 && ev->offset != ev->offset_value - 3) ev_err(c, "offset != offset_value - 3");
        if (ev->offset_value <= 3) c->n_repcode++;
        if (ev->from_dict != (ev->offset > ev->position)) ev_err(c, "from_dict inconsistent");
        if (ev->from_dict) {
            c->n_from_dict++;
            if (!c->have_dict) ev_err(c, "from_dict without a dictionary");
            if (ev->position > c->window) ev_err(c, "dictionary referenced beyond Window_Size");
        } else {
            if (ev->offset > c->window) ev_err(c, "offset > Window_Size");
            if (ev->offset == c->window) c->n_offset_eq_window++;
        }
        c->position += ev->ml;
        c->n_seq++;
        break;
    case EDU_EV_BLOCK:
        if (!c->in_frame) ev_err(c, "BLOCK outside a frame");
        if (c->saw_last) ev_err(c, "BLOCK after the last block");
        if (ev->block_index != c->expect_block_index) ev_err(c, "block_index");
        c->expect_block_index++;
        if (ev->block_type < 0 || ev->block_type > 2) { ev_err(c, "block_type"); break; }
        c->n_blocks[ev->block_type]++;
        if (ev->block_type == 2) {
            if (!c->in_cblock || !c->seq_header_seen) ev_err(c, "compressed BLOCK without LITERALS/SEQ_HEADER");
            if (c->nb_seq_seen != c->nb_seq_announced) ev_err(c, "number of SEQUENCE events != nb_seq");
            if (c->sum_ll > c->lit_regen) ev_err(c, "sum(ll) > literals");
            /* sum(ll+ml) + trailing literals == block_regen */
            if (c->sum_ll + c->sum_ml + (c->lit_regen - c->sum_ll) != ev->block_regen) ev_err(c, "sum(ll+ml)+trailing literals != block_regen");
            c->position += c->lit_regen - c->sum_ll;
        } else {
            if (c->in_cblock) ev_err(c, "raw/rle BLOCK after LITERALS");
            if (ev->block_regen != ev->block_size) ev_err(c, "raw/rle regen != Block_Size");
            c->position += ev->block_regen;
        }
        {
            unsigned long long bmax = c->window < 131072 ? c->window : 131072;
            if (ev->block_size > bmax || ev->block_regen > bmax) ev_err(c, "block larger than Block_Maximum_Size");
        }
        c->in_cblock = 0;
        c->frame_regen += ev->block_regen;
        if (c->position != c->frame_regen) ev_err(c, "position != regenerated so far");
        if (ev->last_block) c->saw_last = 1;
        break;
    case EDU_EV_FRAME_END:
        if (!c->in_frame || !c->saw_last) ev_err(c, "FRAME_END out of place");
        if (ev->content_size != c->frame_regen) ev_err(c, "FRAME_END.content_size != sum of block_regen");
        if (ev->checksum_present && ev->stored_checksum != ev->computed_checksum) ev_err(c, "checksum mismatch in event");
        c->total_regen += c->frame_regen;
        c->in_frame = 0;
        c->n_frames++;
        break;
    default:
        ev_err(c, "unknown event kind");
    }
}

/* global statistics over section (c) */
static evcheck_t g_stats;
static void stats_add(const evcheck_t* c) {
    g_stats.n_frames += c->n_frames;
    g_stats.n_skippable += c->n_skippable;
    for (int i = 0; i < 3; i++) g_stats.n_blocks[i] += c->n_blocks[i];
    for (int i = 0; i < 4; i++) g_stats.n_lit[i] += c->n_lit[i];
    for (int i = 0; i < 3; i++) for (int j = 0; j < 4; j++) g_stats.n_mode[i][j] += c->n_mode[i][j];
    g_stats.n_seq += c->n_seq;
    g_stats.n_from_dict += c->n_from_dict;
    g_stats.n_huf_fse += c->n_huf_fse;
    g_stats.n_huf_direct += c->n_huf_direct;
    g_stats.n_streams4 += c->n_streams4;
    g_stats.n_repcode += c->n_repcode;
    g_stats.n_offset_eq_window += c->n_offset_eq_window;
}

static unsigned long g_rejected_dict12 = 0;

/* Decode `src` with R in strict mode with the checker installed and compare with `expect`. */
static int strict_decode_check(const char* what, const void* src, size_t src_len, const void* expect, size_t expect_len,
                               const void* dict, size_t dict_len, int magicless, evcheck_t* ck_out) {
    unsigned char* dst = malloc(expect_len + 64);
    evcheck_t ck;
    memset(&ck, 0, sizeof(ck));
    ck.have_dict = dict != NULL && dict_len > 0;
    edu_opts_t o;
    memset(&o, 0, sizeof(o));
    o.strict = 1;
    o.magicless = magicless;
    o.cb = ev_cb;
    o.opaque = &ck;
    edu_result_t r = edu_decompress(dst, expect_len + 64, src, src_len, dict, dict_len, &o);
    int good = 1;
    if (!r.ok && dict_len >= 8 && strstr(r.err, "dictionary Huffman tree with Max_Number_of_Bits > 11") != NULL) {
        /* FINDING R-1 (see README.md): the Huffman tree of
           /repo/tests/golden-dictionaries/http-dict-missing-symbols has Max_Number_of_Bits 12, the
           library loads it and the compressor codes Treeless_Literals_Block with it.  The rule is not
           weakened; the frame is counted and listed, and must still decode to the original bytes
           without strict mode. */
        edu_opts_t o2;
        memset(&o2, 0, sizeof(o2));
        o2.magicless = magicless;
        edu_result_t r2 = edu_decompress(dst, expect_len, src, src_len, dict, dict_len, &o2);
        if (!r2.ok || r2.produced != expect_len || (expect_len && memcmp(dst, expect, expect_len) != 0))
            FAIL("%s: rejected for the 12-bit dictionary tree AND non-strict R differs: %s", what, r2.err);
        if (g_rejected_dict12 < 5) printf("    strict R rejects a library frame: %s\n      %s\n", what, r.err);
        g_rejected_dict12++;
        if (ck_out) memset(ck_out, 0, sizeof(*ck_out));
        free(dst);
        return -1;
    }
    if (!r.ok) {
        FAIL("%s: strict R rejected: %s", what, r.err);
        good = 0;
    } else {
        if (r.produced != expect_len || (expect_len && memcmp(dst, expect, expect_len) != 0)) {
            FAIL("%s: strict R output differs (produced %zu, expected %zu)", what, r.produced, expect_len);
            good = 0;
        }
        if (r.consumed != src_len) { FAIL("%s: consumed %zu != %zu", what, r.consumed, src_len); good = 0; }
        if (ck.errors) { FAIL("%s: event stream inconsistent: %s (%d)", what, ck.first_error, ck.errors); good = 0; }
        if (ck.total_regen != r.produced) { FAIL("%s: sum of block_regen %llu != produced %zu", what, ck.total_regen, r.produced); good = 0; }
        if (ck.in_frame) { FAIL("%s: event stream ends inside a frame", what); good = 0; }
        if (ck.n_frames + ck.n_skippable != r.nframes) { FAIL("%s: nframes %u != events %lu", what, r.nframes, ck.n_frames + ck.n_skippable); good = 0; }
    }
    /* the same input without strict and without callback must give the same bytes */
    if (good) {
        edu_opts_t o2;
        memset(&o2, 0, sizeof(o2));
        o2.magicless = magicless;
        memset(dst, 0xA5, expect_len + 64);
        edu_result_t r2 = edu_decompress(dst, expect_len, src, src_len, dict, dict_len, &o2);
        if (!r2.ok || r2.produced != expect_len || (expect_len && memcmp(dst, expect, expect_len) != 0)) {
            FAIL("%s: non-strict R differs from strict R: %s", what, r2.err);
            good = 0;
        }
    }
    if (ck_out) *ck_out = ck;
    free(dst);
    return good;
}

/* ---- (a) xxh64 ----------------------------------------------------------- */
static void test_xxh64(void) {
    CHECK(vxxh64("", 0, 0) == 0xEF46DB3751D8E999ULL, "XXH64(\"\",0) = %016llx", vxxh64("", 0, 0));
    CHECK(vxxh64(NULL, 0, 0) == 0xEF46DB3751D8E999ULL, "XXH64(NULL,0,0)");
    CHECK(vxxh64("abc", 3, 0) == 0x44BC2CF5AD770999ULL, "XXH64(\"abc\",0) = %016llx", vxxh64("abc", 3, 0));
    /* more published vectors (xxHash sanity test values for the generator
       byteGen = PRIME32; buffer[i] = byteGen >> 56; byteGen *= PRIME64) are
       covered by the cross-check below */
    static unsigned char buf[5008];
    const unsigned long long seeds[] = {0ULL, 1ULL, 0x9E3779B1ULL, 0xFFFFFFFFFFFFFFFFULL, 0x0123456789ABCDEFULL};
    int n = 0;
    for (int it = 0; it < 1000; it++) {
        size_t len = it < 70 ? (size_t)it : rnd(5001);
        size_t off = rnd(8); /* unaligned starts too */
        for (size_t i = 0; i < len; i++) buf[off + i] = (unsigned char)rnd64();
        for (size_t s = 0; s < sizeof(seeds) / sizeof(seeds[0]); s++) {
            unsigned long long a = vxxh64(buf + off, len, seeds[s]);
            unsigned long long b = XXH64(buf + off, len, seeds[s]);
            if (a != b) { FAIL("vxxh64 != XXH64 for len %zu seed %llx: %016llx vs %016llx", len, seeds[s], a, b); return; }
            n++;
        }
    }
    printf("(a) vxxh64: published vectors ok, %d cross-checks against the library's XXH64 ok\n", n);
}

/* ---- (b) golden files ---------------------------------------------------- */
static void test_golden(void) {
    path_t files[64];
    int n, good = 0, rejected = 0, comp = 0;
    size_t cap = (size_t)16 << 20;
    unsigned char* ref = malloc(cap);

    n = list_dir("/repo/tests/golden-decompression", files, 64);
    CHECK(n >= 4, "golden-decompression: only %d files", n);
    for (int i = 0; i < n; i++) {
        size_t len;
        unsigned char* src = read_file(files[i].path, &len);
        if (!src) { FAIL("cannot read %s", files[i].path); continue; }
        size_t const rs = ZSTD_decompress(ref, cap, src, len);
        if (ZSTD_isError(rs)) { FAIL("library rejects %s: %s", files[i].path, ZSTD_getErrorName(rs)); free(src); continue; }
        good += strict_decode_check(files[i].path, src, len, ref, rs, NULL, 0, 0, NULL) > 0;
        free(src);
    }
    printf("(b) golden-decompression: %d/%d decode in strict mode to the library's bytes\n", good, n);

    n = list_dir("/repo/tests/golden-decompression-errors", files, 64);
    CHECK(n >= 3, "golden-decompression-errors: only %d files", n);
    for (int i = 0; i < n; i++) {
        size_t len;
        unsigned char* src = read_file(files[i].path, &len);
        if (!src) { FAIL("cannot read %s", files[i].path); continue; }
        edu_opts_t o;
        memset(&o, 0, sizeof(o));
        o.strict = 1;
        edu_result_t r = edu_decompress(ref, cap, src, len, NULL, 0, &o);
        if (r.ok) FAIL("strict R accepts %s", files[i].path);
        else { rejected++; printf("    %s: %s\n", strrchr(files[i].path, '/') + 1, r.err); }
        free(src);
    }
    printf("(b) golden-decompression-errors: %d/%d rejected in strict mode\n", rejected, n);

    n = list_dir("/repo/tests/golden-compression", files, 64);
    CHECK(n >= 4, "golden-compression: only %d files", n);
    int total = 0;
    for (int i = 0; i < n; i++) {
        size_t len;
        unsigned char* src = read_file(files[i].path, &len);
        if (!src) { FAIL("cannot read %s", files[i].path); continue; }
        size_t const bound = ZSTD_compressBound(len);
        unsigned char* c = malloc(bound);
        const int levels[3] = {1, 3, 19};
        for (int l = 0; l < 3; l++) {
            char what[600];
            size_t const cs = ZSTD_compress(c, bound, src, len, levels[l]);
            total++;
            if (ZSTD_isError(cs)) { FAIL("compress %s", files[i].path); continue; }
            snprintf(what, sizeof(what), "%s@%d", files[i].path, levels[l]);
            evcheck_t ck;
            if (strict_decode_check(what, c, cs, src, len, NULL, 0, 0, &ck) > 0) { comp++; stats_add(&ck); }
        }
        free(c);
        free(src);
    }
    printf("(b) golden-compression: %d/%d (levels 1,3,19) decode identically in strict mode\n", comp, total);
    free(ref);
}

/* ---- input generator ----------------------------------------------------- */
static const char* const WORDS[] = {
    "GET ", "POST ", "HTTP/1.1", "Host: ", "Accept: ", "text/html", "application/json", "Content-Length: ",
    "User-Agent: ", "Mozilla/5.0", "keep-alive", "Connection: ", "\r\n", " ", "the", "quick", "brown", "fox",
    "compression", "zstandard", "dictionary", "sequence", "literal", "offset", "window", "0123456789", "=", "&", "/",
    "index.html", "Cache-Control: ", "no-cache", "gzip, deflate", "Accept-Encoding: ", "en-US", "charset=utf-8", "\n"};
#define NWORDS (sizeof(WORDS) / sizeof(WORDS[0]))

/* fills buf[0..len) with a mix of patterns; `pool`/`pool_len` (may be NULL) is material to copy
   from (dictionary content), so that dictionary matches happen */
static void gen_input(unsigned char* buf, size_t len, const unsigned char* pool, size_t pool_len) {
    size_t pos = 0;
    int style = rnd_range(0, 6);
    if (style == 6) {
        /* copies of earlier data separated by one constant byte: after the first block all
           literals are that byte (RLE_Literals_Block) */
        unsigned char const z = (unsigned char)rnd(256);
        size_t const head = 200 + rnd(3000);
        for (; pos < len && pos < head; pos++) buf[pos] = (unsigned char)(rnd(4) ? 'a' + rnd(20) : rnd(256));
        while (pos < len) {
            size_t n = 8 + rnd(200);
            size_t dist = 1 + rnd((uint32_t)pos);
            if (n > len - pos) n = len - pos;
            for (size_t i = 0; i < n; i++) buf[pos + i] = buf[pos + i - dist];
            pos += n;
            for (unsigned k = rnd(3) + 1; k > 0 && pos < len; k--) buf[pos++] = z;
        }
        return;
    }
    while (pos < len) {
        int kind = style == 5 ? rnd_range(0, 6) : (rnd(4) ? style : rnd_range(0, 6));
        size_t n = 1 + rnd(rnd(8) == 0 ? 20000 : 300);
        if (n > len - pos) n = len - pos;
        switch (kind) {
        case 0: /* words */
            for (size_t e = pos + n; pos < e;) {
                const char* w = WORDS[rnd(NWORDS)];
                size_t wl = strlen(w);
                if (wl > e - pos) wl = e - pos;
                memcpy(buf + pos, w, wl);
                pos += wl;
            }
            break;
        case 1: /* copy from earlier output */
            if (pos > 0) {
                size_t dist = 1 + rnd(rnd(3) ? (uint32_t)(pos < 2000 ? pos : 2000) : (uint32_t)pos);
                if (dist > pos) dist = pos;
                for (size_t i = 0; i < n; i++) buf[pos + i] = buf[pos + i - dist];
                pos += n;
                break;
            }
            /* fallthrough */
        case 2: /* small alphabet */
        {
            unsigned a = 1 + rnd(rnd(2) ? 4 : 60);
            unsigned base = rnd(200);
            for (size_t i = 0; i < n; i++) buf[pos + i] = (unsigned char)(base + rnd(a));
            pos += n;
            break;
        }
        case 3: /* run */
            memset(buf + pos, (int)rnd(256), n);
            pos += n;
            break;
        case 4: /* incompressible */
            for (size_t i = 0; i < n; i++) buf[pos + i] = (unsigned char)rnd64();
            pos += n;
            break;
        case 5: /* from the pool (dictionary) */
            if (pool && pool_len > 8) {
                size_t m = n < pool_len ? n : pool_len;
                size_t at = rnd((uint32_t)(pool_len - m + 1));
                memcpy(buf + pos, pool + at, m);
                pos += m;
                break;
            }
            /* fallthrough */
        default: /* skewed bytes, good for Huffman */
            for (size_t i = 0; i < n; i++) {
                unsigned r = rnd(256);
                buf[pos + i] = (unsigned char)(r < 128 ? 'a' + (r & 3) : r < 200 ? 'e' + (r & 7) : r);
            }
            pos += n;
        }
    }
}

/* ---- (c) round trips ----------------------------------------------------- */
#define MAX_INPUT_LEN 300000
typedef struct {
    unsigned char* data;
    size_t len;
    size_t orig_len;
    const unsigned char* dict; /* NULL, or into g_rdict / g_fdict */
    size_t dict_len;
    int magicless;
} frame_rec_t;
#define POOL_MAX 400
static frame_rec_t g_pool[POOL_MAX];
static int g_pool_n = 0;

static unsigned char* g_fdict;
static size_t g_fdict_len;
static unsigned char* g_rdict;
static size_t g_rdict_len;

static void dict_of(int which, const unsigned char** d, size_t* n) {
    *d = which == 1 ? g_rdict : which == 2 ? g_fdict : NULL;
    *n = which == 1 ? g_rdict_len : which == 2 ? g_fdict_len : 0;
}

static void test_roundtrips(int count) {
    double t0 = now();
    unsigned char* src = malloc(MAX_INPUT_LEN + 1);
    size_t const bound = ZSTD_compressBound(MAX_INPUT_LEN) + 4096;
    unsigned char* comp = malloc(3 * bound + 4096);
    ZSTD_CCtx* cctx = ZSTD_createCCtx();
    ZSTD_DCtx* dctx = ZSTD_createDCtx();
    unsigned char* ref = malloc(2 * MAX_INPUT_LEN + 1);
    int good = 0, known = 0;
    unsigned long with_dict[3] = {0, 0, 0}, n_magicless = 0, n_flush = 0, n_multi = 0, n_checksum = 0;
    unsigned long long bytes = 0;

    for (int it = 0; it < count; it++) {
        uint64_t const seed_at = g_rng;
        int const cls = rnd_range(0, 9);
        size_t len = cls < 4 ? rnd(2001) : cls < 8 ? rnd(40001) : rnd(MAX_INPUT_LEN + 1);
        if (it < 8) len = (size_t)it; /* the tiny ones, 0 included */
        int const dict_kind = rnd_range(0, 9) < 4 ? 0 : rnd_range(1, 2);
        const unsigned char* dict;
        size_t dict_len;
        dict_of(dict_kind, &dict, &dict_len);
        /* raw content dictionaries of varying size: a random suffix of the raw pool */
        if (dict_kind == 1) {
            size_t keep = 8 + rnd((uint32_t)(g_rdict_len - 8 + 1));
            if (rnd(3) == 0) keep = 8 + rnd(2000);
            dict = g_rdict + (g_rdict_len - keep);
            dict_len = keep;
        }
        gen_input(src, len, dict, dict_len);

        int const level = rnd_range(-5, 19);
        int const wlog = rnd_range(10, 20);
        int const checksum = (int)rnd(2);
        int const magicless = rnd(8) == 0;
        int const flush = rnd(4) == 0;
        int const multi = !magicless && rnd(8) == 0;
        char what[256];
        snprintf(what, sizeof(what), "roundtrip #%d (rng %016llx len %zu level %d wlog %d cks %d dict %d/%zu magicless %d flush %d multi %d)",
                 it, (unsigned long long)seed_at, len, level, wlog, checksum, dict_kind, dict_len, magicless, flush, multi);

        ZSTD_CCtx_reset(cctx, ZSTD_reset_session_and_parameters);
        ZSTD_CCtx_setParameter(cctx, ZSTD_c_compressionLevel, level);
        ZSTD_CCtx_setParameter(cctx, ZSTD_c_windowLog, wlog);
        ZSTD_CCtx_setParameter(cctx, ZSTD_c_checksumFlag, checksum);
        ZSTD_CCtx_setParameter(cctx, ZSTD_c_contentSizeFlag, (int)rnd(2));
        ZSTD_CCtx_setParameter(cctx, ZSTD_c_dictIDFlag, (int)rnd(2));
        if (magicless) ZSTD_CCtx_setParameter(cctx, ZSTD_c_format, ZSTD_f_zstd1_magicless);
        if (rnd(10) == 0) ZSTD_CCtx_setParameter(cctx, ZSTD_c_targetCBlockSize, rnd_range(1340, 8000));
        if (rnd(10) == 0) ZSTD_CCtx_setParameter(cctx, ZSTD_c_literalCompressionMode, rnd_range(0, 2));
        if (dict_kind) {
            size_t const e = ZSTD_CCtx_loadDictionary(cctx, dict, dict_len);
            if (ZSTD_isError(e)) { FAIL("%s: loadDictionary: %s", what, ZSTD_getErrorName(e)); continue; }
        }

        size_t csize = 0;
        size_t expect_len = len;
        const unsigned char* expect = src;
        if (!flush) {
            csize = ZSTD_compress2(cctx, comp, bound, src, len);
            if (ZSTD_isError(csize)) { FAIL("%s: compress2: %s", what, ZSTD_getErrorName(csize)); continue; }
        } else {
            ZSTD_outBuffer ob = {comp, bound, 0};
            size_t done = 0;
            int failed = 0;
            while (1) {
                size_t chunk = rnd(2) ? rnd(3000) : rnd(50000);
                if (chunk > len - done) chunk = len - done;
                ZSTD_inBuffer ib = {src + done, chunk, 0};
                int const last = done + chunk == len;
                ZSTD_EndDirective const dir = last ? ZSTD_e_end : rnd(3) ? ZSTD_e_flush : ZSTD_e_continue;
                size_t rem;
                do {
                    rem = ZSTD_compressStream2(cctx, &ob, &ib, dir);
                    if (ZSTD_isError(rem)) { failed = 1; break; }
                } while (dir != ZSTD_e_continue ? rem != 0 : ib.pos < ib.size);
                if (failed) break;
                done += chunk;
                if (last) break;
            }
            if (failed) { FAIL("%s: compressStream2 failed", what); continue; }
            csize = ob.pos;
            n_flush++;
        }

        if (multi) {
            /* [skippable] frame [skippable] frame(again) : tests the outer loop */
            unsigned char* p = comp + bound;
            size_t w = 0;
            unsigned const sk = rnd(40);
            if (rnd(2)) {
                unsigned const magic = 0x184D2A50U + rnd(16);
                memcpy(p + w, &magic, 4); memcpy(p + w + 4, &sk, 4); w += 8;
                for (unsigned i = 0; i < sk; i++) p[w++] = (unsigned char)rnd64();
            }
            memcpy(p + w, comp, csize); w += csize;
            {
                unsigned const magic = 0x184D2A50U + rnd(16);
                unsigned const z = rnd(3) ? 0 : sk;
                memcpy(p + w, &magic, 4); memcpy(p + w + 4, &z, 4); w += 8;
                for (unsigned i = 0; i < z; i++) p[w++] = (unsigned char)rnd64();
            }
            memcpy(p + w, comp, csize); w += csize;
            memmove(comp, p, w);
            csize = w;
            memcpy(ref, src, len);
            memcpy(ref + len, src, len);
            expect = ref;
            expect_len = 2 * len;
            n_multi++;
        }

        /* the library must agree that this is decodable (sanity of the test itself) */
        {
            unsigned char* out = malloc(expect_len + 1);
            ZSTD_DCtx_reset(dctx, ZSTD_reset_session_and_parameters);
            if (magicless) ZSTD_DCtx_setParameter(dctx, ZSTD_d_format, ZSTD_f_zstd1_magicless);
            if (dict_kind) ZSTD_DCtx_loadDictionary(dctx, dict, dict_len);
            size_t const ds = ZSTD_decompressDCtx(dctx, out, expect_len, comp, csize);
            if (ZSTD_isError(ds) || ds != expect_len || memcmp(out, expect, expect_len) != 0)
                FAIL("%s: the library does not round trip: %s", what, ZSTD_isError(ds) ? ZSTD_getErrorName(ds) : "different bytes");
            free(out);
        }

        evcheck_t ck;
        int const ok = strict_decode_check(what, comp, csize, expect, expect_len, dict, dict_len, magicless, &ck);
        if (ok < 0) { known++; with_dict[dict_kind]++; continue; }
        good += ok;
        if (ok) {
            stats_add(&ck);
            /* the frame header seen by R equals the one the library parses */
            ZSTD_frameHeader fh;
            const unsigned char* f0 = comp;
            size_t f0len = csize;
            if (multi) { /* skip leading skippable frame, if any */
                unsigned m; memcpy(&m, comp, 4);
                if ((m & 0xFFFFFFF0U) == 0x184D2A50U) { unsigned z; memcpy(&z, comp + 4, 4); f0 += 8 + z; f0len -= 8 + z; }
            }
            size_t const hr = ZSTD_getFrameHeader_advanced(&fh, f0, f0len, magicless ? ZSTD_f_zstd1_magicless : ZSTD_f_zstd1);
            if (hr != 0 || !ck.got_header) FAIL("%s: getFrameHeader", what);
            else {
                CHECK(fh.windowSize == ck.header.window_size, "%s: window %llu vs R %llu", what, fh.windowSize, ck.header.window_size);
                CHECK((fh.frameContentSize != ZSTD_CONTENTSIZE_UNKNOWN) == ck.header.has_fcs, "%s: has_fcs", what);
                CHECK(!ck.header.has_fcs || fh.frameContentSize == ck.header.fcs, "%s: fcs", what);
                CHECK(fh.dictID == ck.header.dict_id, "%s: dictID", what);
                CHECK((int)fh.checksumFlag == ck.header.checksum_flag, "%s: checksumFlag", what);
                CHECK(fh.headerSize == ck.header.header_size + (magicless ? 0 : 4), "%s: headerSize", what);
                CHECK(ck.header.reserved_bit == 0, "%s: reserved bit", what);
            }
            /* keep some for the mutation test */
            if (!multi && csize <= 12000 && csize >= 4 && (g_pool_n < POOL_MAX || rnd(4) == 0)) {
                int slot = g_pool_n < POOL_MAX ? g_pool_n++ : (int)rnd(POOL_MAX);
                free(g_pool[slot].data);
                g_pool[slot].data = malloc(csize);
                memcpy(g_pool[slot].data, comp, csize);
                g_pool[slot].len = csize;
                g_pool[slot].orig_len = len;
                g_pool[slot].dict = dict;
                g_pool[slot].dict_len = dict_len;
                g_pool[slot].magicless = magicless;
            }
        }
        with_dict[dict_kind]++;
        n_magicless += (unsigned long)magicless;
        n_checksum += (unsigned long)checksum;
        bytes += expect_len;
        if ((it + 1) % 500 == 0) { printf("    ... %d round trips, %.0f s\n", it + 1, now() - t0); fflush(stdout); }
    }
    printf("(c) round trips: %d/%d decode in strict mode to the original bytes with a consistent event stream (%.1f MB, %.0f s)\n",
           good, count - known, (double)bytes / 1e6, now() - t0);
    printf("    library frames rejected by strict mode: %d, all for FINDING R-1 (Treeless literals coded with the 12-bit Huffman tree of\n"
           "    http-dict-missing-symbols; spec: Max_Number_of_Bits must be <= 11); all of them decode correctly without strict mode\n", known);
    if (good != count - known) FAIL("round trips: %d of %d failed", count - known - good, count - known);
    printf("    no dict %lu, raw dict %lu, formatted dict %lu, magicless %lu, checksum %lu, with flushes %lu, concatenated+skippable %lu\n",
           with_dict[0], with_dict[1], with_dict[2], n_magicless, n_checksum, n_flush, n_multi);
    printf("    frames %lu, skippable %lu, blocks raw/rle/compressed %lu/%lu/%lu, literals raw/rle/huf/treeless %lu/%lu/%lu/%lu (4 streams %lu, weights fse/direct %lu/%lu)\n",
           g_stats.n_frames, g_stats.n_skippable, g_stats.n_blocks[0], g_stats.n_blocks[1], g_stats.n_blocks[2],
           g_stats.n_lit[0], g_stats.n_lit[1], g_stats.n_lit[2], g_stats.n_lit[3], g_stats.n_streams4, g_stats.n_huf_fse, g_stats.n_huf_direct);
    printf("    sequences %lu (repcodes %lu, into dictionary %lu, offset == Window_Size %lu); modes predef/rle/fse/repeat LL %lu/%lu/%lu/%lu OF %lu/%lu/%lu/%lu ML %lu/%lu/%lu/%lu\n",
           g_stats.n_seq, g_stats.n_repcode, g_stats.n_from_dict, g_stats.n_offset_eq_window,
           g_stats.n_mode[0][0], g_stats.n_mode[0][1], g_stats.n_mode[0][2], g_stats.n_mode[0][3],
           g_stats.n_mode[1][0], g_stats.n_mode[1][1], g_stats.n_mode[1][2], g_stats.n_mode[1][3],
           g_stats.n_mode[2][0], g_stats.n_mode[2][1], g_stats.n_mode[2][2], g_stats.n_mode[2][3]);
    ZSTD_freeCCtx(cctx);
    ZSTD_freeDCtx(dctx);
    free(src);
    free(comp);
    free(ref);
}

/* ---- (d) mutations ------------------------------------------------------- */
static void test_mutations(int count) {
    double t0 = now();
    unsigned long ok_strict = 0, ok_lenient = 0, same_as_orig = 0, strict_ok_lenient_fail = 0;
    unsigned char* dst = malloc(MAX_INPUT_LEN + 4096);
    unsigned char* work = malloc(12000 + 16);
    if (g_pool_n == 0) { FAIL("no frames collected for the mutation test"); return; }
    for (int it = 0; it < count; it++) {
        const frame_rec_t* f = &g_pool[rnd((uint32_t)g_pool_n)];
        const unsigned char* const dict = f->dict;
        size_t const dict_len = f->dict_len;
        size_t len = f->len;
        memcpy(work, f->data, len);
        int const mode = (int)rnd(20);
        if (mode == 0) {
            len = rnd((uint32_t)len); /* truncation */
        } else {
            size_t at = rnd(4) == 0 ? rnd((uint32_t)(len < 24 ? len : 24)) : rnd((uint32_t)len);
            unsigned char v = mode < 8 ? (unsigned char)(work[at] ^ (1u << rnd(8))) : (unsigned char)rnd64();
            if (v == work[at]) v = (unsigned char)(v + 1);
            work[at] = v;
        }
        /* exact-size heap copies so that ASan sees any over-read of src */
        unsigned char* exact = malloc(len ? len : 1);
        memcpy(exact, work, len);
        size_t const cap = rnd(4) == 0 ? f->orig_len : f->orig_len + rnd(3000);
        edu_opts_t o;
        memset(&o, 0, sizeof(o));
        o.magicless = f->magicless;
        o.strict = 1;
        evcheck_t ck;
        memset(&ck, 0, sizeof(ck));
        if (rnd(2)) { o.cb = ev_cb; o.opaque = &ck; ck.have_dict = f->dict != NULL; }
        unsigned char* out = malloc(cap ? cap : 1);
        edu_result_t rs = edu_decompress(out, cap, exact, len, dict, dict_len, &o);
        CHECK(rs.ok == 0 || rs.ok == 1, "ok is not 0/1");
        CHECK(rs.ok || rs.err[0] != 0, "failure without a message");
        CHECK(rs.produced <= cap && rs.consumed <= len, "result out of bounds");
        if (rs.ok && o.cb && ck.errors) FAIL("mutation %d: accepted in strict mode with inconsistent events: %s", it, ck.first_error);
        unsigned long long hs = rs.ok ? vxxh64(out, rs.produced, 0) : 0;
        o.strict = 0;
        o.cb = NULL;
        edu_result_t rl = edu_decompress(out, cap, exact, len, dict, dict_len, &o);
        CHECK(rl.produced <= cap && rl.consumed <= len, "result out of bounds");
        ok_strict += (unsigned long)rs.ok;
        ok_lenient += (unsigned long)rl.ok;
        if (rs.ok && !rl.ok) { strict_ok_lenient_fail++; FAIL("mutation %d: strict accepts, non-strict rejects: %s", it, rl.err); }
        if (rs.ok && rl.ok && (rl.produced != rs.produced || vxxh64(out, rl.produced, 0) != hs)) FAIL("mutation %d: strict and non-strict differ", it);
        if (rs.ok && rs.produced == f->orig_len) same_as_orig++;
        free(out);
        free(exact);
    }
    /* plain garbage and degenerate arguments */
    for (int it = 0; it < 2000; it++) {
        size_t len = rnd(64);
        unsigned char g[64];
        for (size_t i = 0; i < len; i++) g[i] = (unsigned char)rnd64();
        if (len >= 4 && rnd(2)) { unsigned m = 0xFD2FB528U; memcpy(g, &m, 4); }
        edu_opts_t o;
        memset(&o, 0, sizeof(o));
        o.strict = (int)rnd(2);
        o.magicless = rnd(4) == 0;
        edu_result_t r = edu_decompress(dst, rnd(2) ? 0 : 1000, g, len, rnd(2) ? g : NULL, rnd(2) ? len : 0, &o);
        (void)r;
    }
    {
        edu_result_t r = edu_decompress(NULL, 0, NULL, 0, NULL, 0, NULL);
        CHECK(r.ok && r.nframes == 0 && r.produced == 0, "empty input");
    }
    printf("(d) mutations: %d mutated frames (+2000 garbage inputs) decoded strict and non-strict without a crash (%.0f s)\n", count, now() - t0);
    printf("    accepted strict %lu, accepted non-strict %lu, accepted strict with the original length %lu\n", ok_strict, ok_lenient, same_as_orig);
    free(dst);
    free(work);
}

/* ---- (e) default tables vs Appendix A ------------------------------------ */
static void test_default_tables(void) {
    size_t len;
    char* md = (char*)read_file("/repo/doc/zstd_compression_format.md", &len);
    if (!md) { FAIL("cannot read the format specification"); return; }
    md = realloc(md, len + 1);
    md[len] = 0;
    const char* const titles[3] = {"#### Literal Length Code:", "#### Offset Code:", "#### Match Length Code:"}; /* which = 0 LL, 1 OF, 2 ML */
    const int sizes[3] = {64, 32, 64};
    int rows_checked = 0;
    for (int which = 0; which < 3; which++) {
        unsigned char sym[64], nb[64];
        unsigned short base[64];
        memset(sym, 0xEE, sizeof(sym));
        int const n = edu_default_table(which, sym, nb, base);
        CHECK(n == sizes[which], "edu_default_table(%d) returned %d", which, n);
        const char* p = strstr(md, titles[which]);
        if (!p) { FAIL("Appendix A table %d not found", which); continue; }
        p = strstr(p, "| ----- |");
        if (!p) { FAIL("Appendix A table %d: no header", which); continue; }
        p = strchr(p, '\n');
        int rows = 0;
        while (p && rows < n) {
            int st, s, b, bl;
            p++;
            if (sscanf(p, "| %d | %d | %d | %d |", &st, &s, &b, &bl) != 4) break;
            if (st != rows) { FAIL("Appendix A table %d: state %d at row %d", which, st, rows); break; }
            if (sym[st] != s || nb[st] != b || base[st] != bl)
                FAIL("default table %d state %d: R has (%d,%d,%d), Appendix A has (%d,%d,%d)", which, st, sym[st], nb[st], base[st], s, b, bl);
            rows++;
            rows_checked++;
            p = strchr(p, '\n');
        }
        CHECK(rows == n, "Appendix A table %d: %d rows, expected %d", which, rows, n);
    }
    CHECK(edu_default_table(3, (unsigned char*)md, (unsigned char*)md, NULL) == 0, "bad argument accepted");
    printf("(e) edu_default_table: %d rows identical to Appendix A of the format specification\n", rows_checked);
    free(md);
}


/* ---- (f) hand-made frames: each strict rule that can be reached without an entropy coder ---- */
static int hb(unsigned v) { int r = -1; while (v) { r++; v >>= 1; } return r; }

/* [magic] FHD=0x00 WD=0x00 (Window_Size 1 KB) [RLE block of pre_rle 'x'] compressed block:
   raw literals "abcd", one sequence ll=4 ml=3 offset, predefined tables. Returns the frame size. */
static size_t make_frame(unsigned char* f, size_t pre_rle, unsigned offset) {
    static unsigned char sym[3][64], nb[3][64];
    static unsigned short base[3][64];
    static int init = 0;
    size_t w = 0;
    if (!init) { for (int i = 0; i < 3; i++) edu_default_table(i, sym[i], nb[i], base[i]); init = 1; }
    unsigned const ov = offset + 3;
    int const code = hb(ov);
    unsigned long long const extra = ov - (1u << code);
    unsigned ll_state = 0, of_state = 0, ml_state = 0;
    for (unsigned i = 0; i < 64; i++) if (sym[0][i] == 4) { ll_state = i; break; }
    for (unsigned i = 0; i < 32; i++) if (sym[1][i] == code) { of_state = i; break; }
    for (unsigned i = 0; i < 64; i++) if (sym[2][i] == 0) { ml_state = i; break; }
    unsigned long long const bits = extra | ((unsigned long long)ml_state << code) | ((unsigned long long)of_state << (code + 6)) |
                                    ((unsigned long long)ll_state << (code + 11)) | (1ULL << (code + 17));
    size_t const nbytes = (size_t)(code + 17) / 8 + 1;
    f[w++] = 0x28; f[w++] = 0xB5; f[w++] = 0x2F; f[w++] = 0xFD;
    f[w++] = 0x00; /* Frame_Header_Descriptor: nothing optional */
    f[w++] = 0x00; /* Window_Descriptor: 1 KB */
    if (pre_rle) {
        unsigned const h = (1u << 1) | ((unsigned)pre_rle << 3);
        f[w++] = (unsigned char)h; f[w++] = (unsigned char)(h >> 8); f[w++] = (unsigned char)(h >> 16);
        f[w++] = 'x';
    }
    {
        unsigned const bsize = (unsigned)(1 + 4 + 1 + 1 + nbytes);
        unsigned const h = 1u | (2u << 1) | (bsize << 3);
        f[w++] = (unsigned char)h; f[w++] = (unsigned char)(h >> 8); f[w++] = (unsigned char)(h >> 16);
    }
    f[w++] = 4 << 3; /* Raw_Literals_Block, Size_Format 0, Regenerated_Size 4 */
    memcpy(f + w, "abcd", 4); w += 4;
    f[w++] = 1;    /* Number_of_Sequences */
    f[w++] = 0;    /* all Predefined_Mode */
    for (size_t i = 0; i < nbytes; i++) f[w++] = (unsigned char)(bits >> (8 * i));
    return w;
}

typedef struct { int n_seq; int from_dict; unsigned long long offset, position; } seqspy_t;
static void seqspy_cb(void* o, const edu_event_t* e) {
    seqspy_t* s = (seqspy_t*)o;
    if (e->kind == EDU_EV_SEQUENCE) { s->n_seq++; s->from_dict = e->from_dict; s->offset = e->offset; s->position = e->position; }
}

/* expect: 1 accepted by R in both modes with `tail` as the last 7 bytes, 0 rejected by R in both modes.
   The library's verdict is printed; it must agree when R accepts. */
static void handmade_case(const char* name, size_t pre_rle, unsigned offset, const char* dict, int expect, const char* tail, int expect_from_dict) {
    unsigned char f[64], out[2048], lout[2048];
    size_t const n = make_frame(f, pre_rle, offset);
    size_t const dl = dict ? strlen(dict) : 0;
    int lib_ok;
    {
        ZSTD_DCtx* d = ZSTD_createDCtx();
        size_t const r = ZSTD_decompress_usingDict(d, lout, sizeof(lout), f, n, dict, dl);
        lib_ok = !ZSTD_isError(r);
        if (lib_ok && expect) CHECK(r == pre_rle + 7 && memcmp(lout + r - 7, tail, 7) == 0, "handmade %s: library output differs from the expected bytes", name);
        ZSTD_freeDCtx(d);
    }
    for (int strict = 0; strict < 2; strict++) {
        seqspy_t spy;
        memset(&spy, 0, sizeof(spy));
        edu_opts_t o;
        memset(&o, 0, sizeof(o));
        o.strict = strict;
        o.cb = seqspy_cb;
        o.opaque = &spy;
        edu_result_t r = edu_decompress(out, sizeof(out), f, n, dict, dl, &o);
        if (expect) {
            CHECK(r.ok, "handmade %s (strict %d): rejected: %s", name, strict, r.err);
            if (r.ok) {
                CHECK(r.produced == pre_rle + 7 && memcmp(out + r.produced - 7, tail, 7) == 0, "handmade %s: output %.*s", name, 7, out + pre_rle);
                CHECK(spy.n_seq == 1 && spy.from_dict == expect_from_dict && spy.offset == offset && spy.position == pre_rle + 4,
                      "handmade %s: SEQUENCE event (n %d from_dict %d offset %llu position %llu)", name, spy.n_seq, spy.from_dict, spy.offset, spy.position);
                CHECK(lib_ok, "handmade %s: R accepts, the library rejects", name);
            }
        } else {
            CHECK(!r.ok, "handmade %s (strict %d): accepted", name, strict);
        }
        if (strict) printf("    %-58s R: %-8s library: %s\n", name, r.ok ? "accepts" : "rejects", lib_ok ? "accepts" : "rejects");
    }
}

/* a frame given byte by byte; expectation per mode */
static void header_case(const char* name, const unsigned char* f, size_t n, int expect_strict, int expect_lenient, unsigned long long max_window,
                        const void* dict, size_t dl) {
    unsigned char out[300000];
    for (int strict = 0; strict < 2; strict++) {
        edu_opts_t o;
        memset(&o, 0, sizeof(o));
        o.strict = strict;
        o.max_window = max_window;
        edu_result_t r = edu_decompress(out, sizeof(out), f, n, dict, dl, &o);
        CHECK(r.ok == (strict ? expect_strict : expect_lenient), "header case %s (strict %d): ok=%d %s", name, strict, r.ok, r.err);
        if (strict) printf("    %-58s strict: %s%s%s\n", name, r.ok ? "accepts" : "rejects", r.ok ? "" : " - ", r.err);
    }
}

static void test_handmade(void) {
    printf("(f) hand-made frames (Window_Size 1 KB, raw literals \"abcd\", one sequence ll=4 ml=3):\n");
    handmade_case("offset 1", 0, 1, NULL, 1, "abcdddd", 0);
    handmade_case("offset 4 (= position)", 0, 4, NULL, 1, "abcdabc", 0);
    handmade_case("offset 5 (> position), no dictionary", 0, 5, NULL, 0, NULL, 0);
    handmade_case("offset 5, 8-byte raw dictionary", 0, 5, "01234567", 1, "abcd7ab", 1);
    handmade_case("offset 12 (= position + dictionary size)", 0, 12, "01234567", 1, "abcd012", 1);
    handmade_case("offset 13 (> position + dictionary size)", 0, 13, "01234567", 0, NULL, 0);
    handmade_case("position 1028, offset 1024 (= Window_Size)", 1024, 1024, NULL, 1, "abcdxxx", 0);
    handmade_case("position 1028, offset 1025 (> Window_Size)", 1024, 1025, NULL, 0, NULL, 0);
    handmade_case("position 1024 (= Window_Size), offset 1026 into dictionary", 1020, 1026, "01234567", 1, "abcd67x", 1);
    handmade_case("position 1028 (> Window_Size), offset 1030 into dictionary", 1024, 1030, "01234567", 0, NULL, 0);

    printf("    frame and block header rules:\n");
    {
        /* single segment, FCS 3, raw block "abc" */
        unsigned char f[] = {0x28, 0xB5, 0x2F, 0xFD, 0x20, 3, (1 | (3 << 3)), 0, 0, 'a', 'b', 'c'};
        header_case("single segment, FCS 3, raw block of 3", f, sizeof(f), 1, 1, 0, NULL, 0);
        f[4] = 0x28;
        header_case("Reserved_bit set", f, sizeof(f), 0, 1, 0, NULL, 0);
        f[4] = 0x30;
        header_case("Unused_bit set (not interpreted)", f, sizeof(f), 1, 1, 0, NULL, 0);
        f[4] = 0x20; f[5] = 4;
        header_case("Frame_Content_Size 4, 3 bytes regenerated", f, sizeof(f), 0, 1, 0, NULL, 0);
        f[5] = 2;
        header_case("single segment FCS 2 (Block_Maximum_Size 2), raw block of 3", f, sizeof(f), 0, 1, 0, NULL, 0);
    }
    {
        unsigned char f[] = {0x28, 0xB5, 0x2F, 0xFD, 0x20, 3, (1 | (3 << 1) | (3 << 3)), 0, 0, 'a', 'b', 'c'};
        header_case("reserved Block_Type 3", f, sizeof(f), 0, 0, 0, NULL, 0);
    }
    {
        /* checksum flag, single segment FCS 3 */
        unsigned char f[] = {0x28, 0xB5, 0x2F, 0xFD, 0x24, 3, (1 | (3 << 3)), 0, 0, 'a', 'b', 'c', 0, 0, 0, 0};
        unsigned const x = (unsigned)(vxxh64("abc", 3, 0) & 0xFFFFFFFFU);
        memcpy(f + 12, &x, 4);
        header_case("Content_Checksum correct", f, sizeof(f), 1, 1, 0, NULL, 0);
        f[12] ^= 1;
        header_case("Content_Checksum wrong", f, sizeof(f), 0, 1, 0, NULL, 0);
        header_case("Content_Checksum truncated", f, sizeof(f) - 1, 0, 0, 0, NULL, 0);
    }
    {
        /* Window_Size 1 KB, raw block of 1025 */
        static unsigned char f[4 + 2 + 3 + 1025];
        unsigned const h = 1u | (1025u << 3);
        memset(f, 'r', sizeof(f));
        f[0] = 0x28; f[1] = 0xB5; f[2] = 0x2F; f[3] = 0xFD; f[4] = 0; f[5] = 0;
        f[6] = (unsigned char)h; f[7] = (unsigned char)(h >> 8); f[8] = (unsigned char)(h >> 16);
        header_case("Window_Size 1 KB, Raw_Block of 1025", f, sizeof(f), 0, 1, 0, NULL, 0);
        {
            unsigned const h2 = 1u | (1024u << 3);
            f[6] = (unsigned char)h2; f[7] = (unsigned char)(h2 >> 8); f[8] = (unsigned char)(h2 >> 16);
            header_case("Window_Size 1 KB, Raw_Block of 1024", f, sizeof(f) - 1, 1, 1, 0, NULL, 0);
        }
    }
    {
        /* Window_Size 1 MB (exponent 10), RLE block */
        unsigned char f[] = {0x28, 0xB5, 0x2F, 0xFD, 0x00, 10 << 3, 0, 0, 0, 'z'};
        unsigned h = 1u | (1u << 1) | (131073u << 3);
        f[6] = (unsigned char)h; f[7] = (unsigned char)(h >> 8); f[8] = (unsigned char)(h >> 16);
        header_case("Window_Size 1 MB, RLE_Block of 128 KB + 1", f, sizeof(f), 0, 1, 0, NULL, 0);
        h = 1u | (1u << 1) | (131072u << 3);
        f[6] = (unsigned char)h; f[7] = (unsigned char)(h >> 8); f[8] = (unsigned char)(h >> 16);
        header_case("Window_Size 1 MB, RLE_Block of 128 KB", f, sizeof(f), 1, 1, 0, NULL, 0);
        header_case("Window_Size 1 MB, max_window 512 KB", f, sizeof(f), 0, 0, 1 << 19, NULL, 0);
        f[5] = (21 << 3) | 1; /* 2^31 * 1.125 */
        header_case("Window_Size 2^31 + 2^28, default max_window 2^31", f, sizeof(f), 0, 0, 0, NULL, 0);
        f[5] = (21 << 3);
        header_case("Window_Size 2^31, default max_window 2^31", f, sizeof(f), 1, 1, 0, NULL, 0);
    }
    {
        /* Dictionary_ID 7 in the frame, raw block */
        unsigned char f[] = {0x28, 0xB5, 0x2F, 0xFD, 0x21, 7, 3, (1 | (3 << 3)), 0, 0, 'a', 'b', 'c'};
        header_case("frame names Dictionary_ID 7, no dictionary given", f, sizeof(f), 0, 1, 0, NULL, 0);
        header_case("frame names Dictionary_ID 7, raw dictionary given", f, sizeof(f), 0, 0, 0, "01234567", 8);
    }
    {
        unsigned char f[] = {0x50, 0x2A, 0x4D, 0x18, 3, 0, 0, 0, 1, 2, 3, 0x5F, 0x2A, 0x4D, 0x18, 0, 0, 0, 0};
        header_case("two skippable frames only", f, sizeof(f), 1, 1, 0, NULL, 0);
        header_case("skippable frame, Frame_Size beyond the input", f, 10, 0, 0, 0, NULL, 0);
        header_case("skippable frame, truncated Frame_Size", f, 6, 0, 0, 0, NULL, 0);
        f[0] = 0x60;
        header_case("unknown magic number", f, sizeof(f), 0, 0, 0, NULL, 0);
    }
    {
        /* compressed block, raw literals "abc", Number_of_Sequences 0 in the 2-byte form, then nothing / one extra byte */
        unsigned char f[] = {0x28, 0xB5, 0x2F, 0xFD, 0x00, 0x00, (1 | (2 << 1) | (6 << 3)), 0, 0, 3 << 3, 'a', 'b', 'c', 0x80, 0x00, 0xFF};
        header_case("Number_of_Sequences 0 written with 2 bytes", f, sizeof(f) - 1, 1, 1, 0, NULL, 0);
        f[6] = (1 | (2 << 1) | (7 << 3));
        header_case("Number_of_Sequences 0 followed by an extra byte", f, sizeof(f), 0, 1, 0, NULL, 0);
    }
}

int main(int argc, char** argv) {
    unsigned long long seed = argc > 1 ? strtoull(argv[1], NULL, 0) : 20261001ULL;
    int const n_rt = argc > 2 ? atoi(argv[2]) : 3000;
    int const n_mut = argc > 3 ? atoi(argv[3]) : 20000;
    g_rng ^= seed * 0x9E3779B97F4A7C15ULL;
    if (!g_rng) g_rng = 1;
    double t0 = now();

    g_fdict = read_file("/repo/tests/golden-dictionaries/http-dict-missing-symbols", &g_fdict_len);
    if (!g_fdict) { fprintf(stderr, "cannot read the formatted dictionary\n"); return 2; }
    g_rdict_len = 100000;
    g_rdict = malloc(g_rdict_len);
    gen_input(g_rdict, g_rdict_len, g_fdict, g_fdict_len);
    g_rdict[0] = 'R'; /* never the dictionary magic */

    printf("edu selftest: seed %llu, zstd %s\n", seed, ZSTD_versionString());
    test_xxh64();
    test_default_tables();
    test_golden();
    test_handmade();
    test_roundtrips(n_rt);
    test_mutations(n_mut);

    for (int i = 0; i < g_pool_n; i++) free(g_pool[i].data);
    free(g_fdict);
    free(g_rdict);
    printf("%s: %d failure(s), %.0f s\n", g_failures ? "FAILED" : "ALL OK", g_failures, now() - t0);
    return g_failures ? 1 : 0;
}
