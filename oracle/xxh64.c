/*
 * vxxh64 - an independent implementation of the XXH64 hash, written from the
 * algorithm description (xxHash specification, "XXH64 algorithm description"),
 * NOT derived from /repo/lib/common/xxhash.h.  It is used by the decoding
 * oracle to verify the Content_Checksum of Zstandard frames, so that the
 * oracle shares no code with the library under test.
 *
 * Algorithm (all arithmetic modulo 2^64, all multi-byte reads little-endian):
 *
 *   Step 1. Initialise four accumulators
 *             acc1 = seed + P1 + P2, acc2 = seed + P2, acc3 = seed, acc4 = seed - P1
 *           (skipped when the input is shorter than 32 bytes).
 *   Step 2. Consume the input in stripes of 32 bytes; each stripe is four
 *           lanes of 8 bytes, lane i updates accumulator i:
 *             acc = acc + lane * P2;  acc = rotl(acc, 31);  acc = acc * P1
 *   Step 3. Converge:
 *             h = rotl(acc1,1) + rotl(acc2,7) + rotl(acc3,12) + rotl(acc4,18)
 *             then for each accumulator in order:
 *             h = (h xor round(0, acc)) * P1 + P4
 *           For inputs shorter than 32 bytes instead:  h = seed + P5
 *   Step 4. h = h + total input length
 *   Step 5. Consume the remaining (< 32) bytes:
 *             while >= 8 bytes remain: h ^= round(0, lane64); h = rotl(h,27) * P1 + P4
 *             if    >= 4 bytes remain: h ^= lane32 * P1;      h = rotl(h,23) * P2 + P3
 *             for each remaining byte: h ^= byte * P5;        h = rotl(h,11) * P1
 *   Step 6. Avalanche:
 *             h ^= h >> 33; h *= P2; h ^= h >> 29; h *= P3; h ^= h >> 32
 */
#include "xxh64.h"

typedef unsigned long long v64; /* at least 64 bits; masked where it matters */

#define V64(x) ((v64)(x) & 0xFFFFFFFFFFFFFFFFULL)

static const v64 P1 = 0x9E3779B185EBCA87ULL;
static const v64 P2 = 0xC2B2AE3D27D4EB4FULL;
static const v64 P3 = 0x165667B19E3779F9ULL;
static const v64 P4 = 0x85EBCA77C2B2AE63ULL;
static const v64 P5 = 0x27D4EB2F165667C5ULL;

static v64 rotl(v64 x, int r) { return V64((x << r) | (V64(x) >> (64 - r))); }

static v64 lane64(const unsigned char* p)
{
    v64 v = 0;
    int i;
    for (i = 7; i >= 0; i--) v = (v << 8) | p[i];
    return v;
}

static v64 lane32(const unsigned char* p)
{
    return (v64)p[0] | ((v64)p[1] << 8) | ((v64)p[2] << 16) | ((v64)p[3] << 24);
}

static v64 round64(v64 acc, v64 lane)
{
    acc = V64(acc + V64(lane * P2));
    acc = rotl(acc, 31);
    return V64(acc * P1);
}

static v64 merge(v64 h, v64 acc)
{
    h ^= round64(0, acc);
    return V64(V64(h * P1) + P4);
}

unsigned long long vxxh64(const void* data, size_t n, unsigned long long seed)
{
    const unsigned char* p = (const unsigned char*)data;
    size_t left = n;
    v64 h;

    seed = V64(seed);
    if (n >= 32) {
        v64 a1 = V64(seed + P1 + P2);
        v64 a2 = V64(seed + P2);
        v64 a3 = seed;
        v64 a4 = V64(seed - P1);
        while (left >= 32) {
            a1 = round64(a1, lane64(p));
            a2 = round64(a2, lane64(p + 8));
            a3 = round64(a3, lane64(p + 16));
            a4 = round64(a4, lane64(p + 24));
            p += 32;
            left -= 32;
        }
        h = V64(rotl(a1, 1) + rotl(a2, 7) + rotl(a3, 12) + rotl(a4, 18));
        h = merge(h, a1);
        h = merge(h, a2);
        h = merge(h, a3);
        h = merge(h, a4);
    } else {
        h = V64(seed + P5);
    }

    h = V64(h + (v64)n);

    while (left >= 8) {
        h ^= round64(0, lane64(p));
        h = V64(V64(rotl(h, 27) * P1) + P4);
        p += 8;
        left -= 8;
    }
    if (left >= 4) {
        h ^= V64(lane32(p) * P1);
        h = V64(V64(rotl(h, 23) * P2) + P3);
        p += 4;
        left -= 4;
    }
    while (left > 0) {
        h ^= V64((v64)(*p) * P5);
        h = V64(rotl(h, 11) * P1);
        p++;
        left--;
    }

    h ^= h >> 33;
    h = V64(h * P2);
    h ^= h >> 29;
    h = V64(h * P3);
    h ^= h >> 32;
    return h;
}
