/* Independent XXH64 (written from the algorithm description, see xxh64.c). */
#ifndef VERIF_XXH64_H
#define VERIF_XXH64_H
#include <stddef.h>
#ifdef __cplusplus
extern "C" {
#endif
/* XXH64 of the n bytes at p with the given seed. p may be NULL iff n == 0. */
unsigned long long vxxh64(const void* p, size_t n, unsigned long long seed);
#ifdef __cplusplus
}
#endif
#endif
