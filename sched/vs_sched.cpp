// vs_sched.cpp - deterministic scheduler behind the pthread names.
// Every logical thread is a real thread, but exactly one runs at a time. At each synchronisation call the running
// thread yields; the scheduler picks the next runnable thread - and, for cond_signal, WHICH waiter wakes - from the
// choice function (the tape). The sequence of choices IS the schedule: it replays and shrinks like any other input.
// A state with blocked threads and no runnable one is a deadlock / lost wake-up and is reported with its trace.
#define VS_SCHED_IMPL
#include "vs_shim.h"
#include "vs_sched.h"
#include <vector>
#include <map>
#include <deque>
#include <cstdio>
#include <cstdlib>
#include <cstring>
#include <unistd.h>

namespace {
enum St { RUNNABLE, BLOCKED_MUTEX, BLOCKED_COND, BLOCKED_JOIN, DONE };
struct Th { int id; pthread_t real; St st = RUNNABLE; const void* on = nullptr; int join_target = -1; void* (*fn)(void*) = nullptr; void* arg = nullptr; void* ret = nullptr; pthread_cond_t cv; bool started = false; bool needs_mutex_after_cond = false; const void* cond_mutex = nullptr; };
struct Mu { int owner = -1; };
struct Cv { std::vector<int> waiters; };

pthread_mutex_t G = PTHREAD_MUTEX_INITIALIZER;   // protects everything below
std::vector<Th*> threads;
std::map<const void*, Mu> mutexes;
std::map<const void*, Cv> conds;
int current = -1;
bool active = false;
vs::Config cfg;
vs::Report rep;
std::deque<std::string> trace;
void (*dl_handler)(const char*) = nullptr;
__thread int self_id = -1;

void tr(const char* fmt, int a = 0, const void* p = nullptr, int b = 0) {
    char buf[160]; snprintf(buf, sizeof buf, fmt, a, p, b);
    trace.push_back(buf); if (trace.size() > 120) trace.pop_front();
}
uint32_t choose(uint32_t n) { if (n <= 1 || !cfg.choose) return 0; uint32_t v = cfg.choose(cfg.opaque, n); return v % n; }

std::string dump_trace() {
    std::string s;
    for (auto& l : trace) { s += l; s += '\n'; }
    s += "threads:";
    for (auto t : threads) { char b[96]; snprintf(b, sizeof b, " T%d=%s", t->id, t->st == RUNNABLE ? "runnable" : t->st == BLOCKED_MUTEX ? "blocked(mutex)" : t->st == BLOCKED_COND ? "blocked(cond)" : t->st == BLOCKED_JOIN ? "blocked(join)" : "done"); s += b; }
    return s;
}

// pick the next thread to run; called with G held by the current thread (which may or may not stay runnable)
void schedule_locked(bool voluntary) {
    rep.yields++;
    std::vector<int> R;
    for (auto t : threads) if (t->st == RUNNABLE) R.push_back(t->id);
    if (R.empty()) {
        bool anyBlocked = false; for (auto t : threads) if (t->st != DONE) anyBlocked = true;
        if (anyBlocked) {
            rep.deadlock = true; rep.trace = dump_trace();
            fprintf(stderr, "VF-FAIL DEADLOCK: no runnable thread while some are blocked (lost wake-up)\n%s\n", rep.trace.c_str());
            if (dl_handler) dl_handler(rep.trace.c_str());
            _exit(88);
        }
        return;
    }
    int next = -1;
    bool curRunnable = current >= 0 && threads[current]->st == RUNNABLE;
    if (cfg.starve_thread >= 0 && R.size() > 1) { std::vector<int> R2; for (int r : R) if (r != cfg.starve_thread) R2.push_back(r); R = R2; curRunnable = curRunnable && current != cfg.starve_thread; }
    if (curRunnable && voluntary) {
        // preempt with probability switch_pct
        if (R.size() > 1 && choose(100) < cfg.switch_pct) { std::vector<int> O; for (int r : R) if (r != current) O.push_back(r); next = O[choose((uint32_t)O.size())]; }
        else next = current;
    } else next = R[choose((uint32_t)R.size())];
    if (next != current) { rep.switches++; tr("switch T%d -> (%p) T%d", current, nullptr, next); }
    int me = self_id;
    current = next;
    if (next != me) {
        pthread_cond_signal(&threads[next]->cv);
        if (me >= 0 && threads[me]->st != DONE) while (current != me) pthread_cond_wait(&threads[me]->cv, &G);
    }
}

void* trampoline(void* p) {
    Th* t = (Th*)p;
    self_id = t->id;
    pthread_mutex_lock(&G);
    while (current != t->id) pthread_cond_wait(&t->cv, &G);
    pthread_mutex_unlock(&G);
    void* r = t->fn(t->arg);
    pthread_mutex_lock(&G);
    t->ret = r; t->st = DONE;
    tr("T%d exits", t->id);
    for (auto o : threads) if (o->st == BLOCKED_JOIN && o->join_target == t->id) o->st = RUNNABLE;
    schedule_locked(false);
    pthread_mutex_unlock(&G);
    return r;
}

int do_create(void* (*fn)(void*), void* arg) {
    pthread_mutex_lock(&G);
    Th* t = new Th(); t->id = (int)threads.size(); t->fn = fn; t->arg = arg; pthread_cond_init(&t->cv, nullptr);
    threads.push_back(t);
    if (threads.size() > rep.max_threads) rep.max_threads = (unsigned)threads.size();
    tr("T%d creates (%p) T%d", self_id, nullptr, t->id);
    pthread_attr_t a; pthread_attr_init(&a); pthread_attr_setstacksize(&a, 1u << 20);
    pthread_create(&t->real, &a, trampoline, t);
    pthread_attr_destroy(&a);
    int id = t->id;
    schedule_locked(true);
    pthread_mutex_unlock(&G);
    return id;
}
void do_join(int id) {
    pthread_mutex_lock(&G);
    Th* me = threads[self_id];
    if (threads[id]->st != DONE) { me->st = BLOCKED_JOIN; me->join_target = id; rep.blocked_events++; tr("T%d joins (%p) T%d: blocks", self_id, nullptr, id); schedule_locked(false); }
    else schedule_locked(true);
    pthread_mutex_unlock(&G);
    pthread_join(threads[id]->real, nullptr);
}
}  // namespace

namespace vs {
void begin(const Config& c) {
    pthread_mutex_lock(&G);
    for (auto t : threads) { pthread_cond_destroy(&t->cv); delete t; }
    threads.clear(); mutexes.clear(); conds.clear(); trace.clear(); rep = Report();
    cfg = c; active = true;
    Th* m = new Th(); m->id = 0; m->real = pthread_self(); pthread_cond_init(&m->cv, nullptr); threads.push_back(m);
    self_id = 0; current = 0; rep.max_threads = 1;
    pthread_mutex_unlock(&G);
}
Report end() { pthread_mutex_lock(&G); active = false; Report r = rep; pthread_mutex_unlock(&G); return r; }
void on_deadlock(void (*h)(const char*)) { dl_handler = h; }
int spawn(void* (*fn)(void*), void* arg) { return do_create(fn, arg); }
void join(int id) { do_join(id); }
void yield_point(const char*) { pthread_mutex_lock(&G); schedule_locked(true); pthread_mutex_unlock(&G); }
}

extern "C" {
int vs_mutex_init(pthread_mutex_t* m, const pthread_mutexattr_t*) { pthread_mutex_lock(&G); mutexes[m] = Mu(); pthread_mutex_unlock(&G); return 0; }
int vs_mutex_destroy(pthread_mutex_t* m) { pthread_mutex_lock(&G); mutexes.erase(m); pthread_mutex_unlock(&G); return 0; }
int vs_mutex_lock(pthread_mutex_t* m) {
    pthread_mutex_lock(&G);
    if (!active) { pthread_mutex_unlock(&G); return 0; }
    schedule_locked(true);                 // yield BEFORE acquiring: another thread may take it first
    Mu& mu = mutexes[m];
    while (mu.owner != -1) { Th* me = threads[self_id]; me->st = BLOCKED_MUTEX; me->on = m; rep.blocked_events++; tr("T%d blocks on mutex %p", self_id, m); schedule_locked(false); }
    mu.owner = self_id;
    pthread_mutex_unlock(&G);
    return 0;
}
int vs_mutex_unlock(pthread_mutex_t* m) {
    pthread_mutex_lock(&G);
    if (!active) { pthread_mutex_unlock(&G); return 0; }
    Mu& mu = mutexes[m];
    mu.owner = -1;
    for (auto t : threads) if (t->st == BLOCKED_MUTEX && t->on == m) t->st = RUNNABLE;   // all contenders become runnable; who wins is the scheduler's choice
    schedule_locked(true);
    pthread_mutex_unlock(&G);
    return 0;
}
int vs_cond_init(pthread_cond_t* c, const pthread_condattr_t*) { pthread_mutex_lock(&G); conds[c] = Cv(); pthread_mutex_unlock(&G); return 0; }
int vs_cond_destroy(pthread_cond_t* c) { pthread_mutex_lock(&G); conds.erase(c); pthread_mutex_unlock(&G); return 0; }
int vs_cond_wait(pthread_cond_t* c, pthread_mutex_t* m) {
    pthread_mutex_lock(&G);
    if (!active) { pthread_mutex_unlock(&G); return 0; }
    Th* me = threads[self_id];
    // release the mutex and wait, atomically with respect to every other logical thread
    mutexes[m].owner = -1;
    for (auto t : threads) if (t->st == BLOCKED_MUTEX && t->on == m) t->st = RUNNABLE;
    if (cfg.spurious_wakeups && choose(100) < 5) { tr("T%d spurious wake-up on cond %p", self_id, c); }
    else { conds[c].waiters.push_back(self_id); me->st = BLOCKED_COND; me->on = c; rep.blocked_events++; tr("T%d waits on cond %p", self_id, c); }
    schedule_locked(false);
    // woken: re-acquire the mutex (competing with everyone else)
    Mu& mu = mutexes[m];
    while (mu.owner != -1) { me->st = BLOCKED_MUTEX; me->on = m; schedule_locked(false); }
    mu.owner = self_id;
    pthread_mutex_unlock(&G);
    return 0;
}
int vs_cond_signal(pthread_cond_t* c) {
    pthread_mutex_lock(&G);
    if (!active) { pthread_mutex_unlock(&G); return 0; }
    Cv& cv = conds[c];
    if (!cv.waiters.empty()) {
        if (cv.waiters.size() > 1) rep.signals_with_choice++;
        size_t k = choose((uint32_t)cv.waiters.size());   // POSIX: "at least one" unspecified waiter: the scheduler picks which
        int w = cv.waiters[k]; cv.waiters.erase(cv.waiters.begin() + (long)k);
        threads[w]->st = RUNNABLE;
        tr("T%d signals cond %p, wakes T%d", self_id, c, w);
    } else tr("T%d signals cond %p (no waiter)", self_id, c);
    schedule_locked(true);
    pthread_mutex_unlock(&G);
    return 0;
}
int vs_cond_broadcast(pthread_cond_t* c) {
    pthread_mutex_lock(&G);
    if (!active) { pthread_mutex_unlock(&G); return 0; }
    Cv& cv = conds[c];
    for (int w : cv.waiters) threads[w]->st = RUNNABLE;
    tr("T%d broadcasts cond %p (%d waiters)", self_id, c, (int)cv.waiters.size());
    cv.waiters.clear();
    schedule_locked(true);
    pthread_mutex_unlock(&G);
    return 0;
}
int vs_thread_create(pthread_t* t, const pthread_attr_t*, void* (*fn)(void*), void* arg) {
    int id = do_create(fn, arg);
    memset(t, 0, sizeof *t); memcpy(t, &id, sizeof id);
    return 0;
}
int vs_thread_join(pthread_t t, void** ret) {
    int id; memcpy(&id, &t, sizeof id);
    do_join(id);
    if (ret) *ret = threads[id]->ret;
    return 0;
}
}
