// vs_sched.h - the harness-side interface of the deterministic scheduler
#pragma once
#include <cstdint>
#include <cstddef>
#include <string>
namespace vs {
typedef uint32_t (*ChoiceFn)(void* opaque, uint32_t n);   // returns a value in [0, n)
struct Config {
    ChoiceFn choose = nullptr; void* opaque = nullptr;
    unsigned switch_pct = 35;        // probability of preempting the running thread at a yield point
    bool spurious_wakeups = false;   // POSIX allows them
    int starve_thread = -1;          // policy "starve one thread": never pick it while another is runnable
};
void begin(const Config& cfg);       // call from the main (client) thread before using the library
struct Report { bool deadlock = false; std::string trace; unsigned long switches = 0, yields = 0, blocked_events = 0, max_threads = 0, signals_with_choice = 0; };
Report end();                        // all created threads must have been joined by the library
void on_deadlock(void (*handler)(const char* trace));   // default: print and _exit(88)
// client threads of the harness itself (e.g. a second posting thread)
int spawn(void* (*fn)(void*), void* arg);
void join(int id);
void yield_point(const char* what);  // optional extra yield points inside harness jobs
}
