/* vs_shim.h - force-included (-include) into the library sources of the `sched` build variants: every pthread call in
 * pool.c, threading.c and zstdmt_compress.c goes to the deterministic scheduler instead of the OS. /repo is untouched. */
#ifndef VS_SHIM_H
#define VS_SHIM_H
#include <pthread.h>
#ifdef __cplusplus
extern "C" {
#endif
int vs_mutex_init(pthread_mutex_t* m, const pthread_mutexattr_t* a);
int vs_mutex_destroy(pthread_mutex_t* m);
int vs_mutex_lock(pthread_mutex_t* m);
int vs_mutex_unlock(pthread_mutex_t* m);
int vs_cond_init(pthread_cond_t* c, const pthread_condattr_t* a);
int vs_cond_destroy(pthread_cond_t* c);
int vs_cond_wait(pthread_cond_t* c, pthread_mutex_t* m);
int vs_cond_signal(pthread_cond_t* c);
int vs_cond_broadcast(pthread_cond_t* c);
int vs_thread_create(pthread_t* t, const pthread_attr_t* a, void* (*fn)(void*), void* arg);
int vs_thread_join(pthread_t t, void** ret);
#ifdef __cplusplus
}
#endif
#ifndef VS_SCHED_IMPL
#define pthread_mutex_init vs_mutex_init
#define pthread_mutex_destroy vs_mutex_destroy
#define pthread_mutex_lock vs_mutex_lock
#define pthread_mutex_unlock vs_mutex_unlock
#define pthread_cond_init vs_cond_init
#define pthread_cond_destroy vs_cond_destroy
#define pthread_cond_wait vs_cond_wait
#define pthread_cond_signal vs_cond_signal
#define pthread_cond_broadcast vs_cond_broadcast
#define pthread_create vs_thread_create
#define pthread_join vs_thread_join
#endif
#endif
