#!/usr/bin/env python3
"""Variant builder for the code under test.

Compiles /repo sources file by file into /verif/build/obj/<key>.o where key is a
content hash of (source bytes, every header under the include roots, flags).
A change to one .c file therefore rebuilds one object; a change to a header
rebuilds everything that could include it.  Nothing is ever built inside /repo.

Usage from Python:  lib = build_variant('asan')  -> path to an archive
"""
import hashlib, os, subprocess, sys, glob, shlex
from concurrent.futures import ThreadPoolExecutor

REPO = os.environ.get('VERIF_REPO', '/repo')
VERIF = os.path.dirname(os.path.dirname(os.path.abspath(__file__)))
BUILD = os.path.join(VERIF, 'build')
OBJ = os.path.join(BUILD, 'obj')
JOBS = int(os.environ.get('VERIF_JOBS', '16'))

SAN = ['-fsanitize=address,undefined', '-fno-sanitize-recover=undefined',
       '-fno-omit-frame-pointer']
COMMON_DEFS = ['-DZSTD_MULTITHREAD', '-DZSTD_LEGACY_SUPPORT=5', '-DDEBUGLEVEL=1',
               '-DZSTD_VERIF_PROBES']

# variant -> (compiler, flags)
VARIANTS = {
    # the default: ASan+UBSan, asserts on, coverage counters for libFuzzer
    'asan':   ('clang', ['-O1', '-g'] + SAN + ['-fsanitize=fuzzer-no-link'] + COMMON_DEFS),
    # ASan+UBSan without asserts: what a release build does where a debug build would stop at an assert
    'asanrel': ('clang', ['-O1', '-g'] + SAN + ['-fsanitize=fuzzer-no-link', '-DZSTD_MULTITHREAD', '-DZSTD_LEGACY_SUPPORT=5', '-DNDEBUG', '-DDEBUGLEVEL=0', '-DZSTD_VERIF_PROBES']),
    # production arithmetic (no workspace redzones), asserts on
    'plain':  ('clang', ['-O2', '-g'] + COMMON_DEFS),
    'tsan':   ('clang', ['-O1', '-g', '-fsanitize=thread'] + COMMON_DEFS),
    'tsanjm': ('clang', ['-O1', '-g', '-fsanitize=thread'] + COMMON_DEFS + ['-DZSTDMT_JOBSIZE_MIN=65536']),
    # overflow correction forced early and often (knob already in the tree)
    'wocf':   ('clang', ['-O1', '-g'] + SAN + COMMON_DEFS + ['-DZSTD_WINDOW_OVERFLOW_CORRECT_FREQUENTLY=1']),
    # deterministic scheduler behind the pthread names
    'sched':  ('clang', ['-O1', '-g'] + SAN + COMMON_DEFS + ['-include', os.path.join(VERIF, 'sched', 'vs_shim.h')]),
    'schedjm': ('clang', ['-O1', '-g'] + SAN + COMMON_DEFS + ['-DZSTDMT_JOBSIZE_MIN=65536', '-include', os.path.join(VERIF, 'sched', 'vs_shim.h')]),
    # allocator redirect for plain malloc users (dictBuilder, debug threading.c)
    'fault':  ('clang', ['-O1', '-g'] + SAN + COMMON_DEFS + ['-include', os.path.join(VERIF, 'fault', 'vf_malloc.h')]),
}
# decoder build variants (C04); only the decoder-relevant files are built
DEC_VARIANTS = {
    'dX1':      ['-DHUF_FORCE_DECOMPRESS_X1'],
    'dX2':      ['-DHUF_FORCE_DECOMPRESS_X2'],
    'dNoAsm':   ['-DZSTD_DISABLE_ASM'],
    'dNoFast':  ['-DHUF_DISABLE_FAST_DECODE=1', '-DZSTD_DISABLE_ASM'],
    'dNoBmi2':  ['-DDYNAMIC_BMI2=0', '-DZSTD_DISABLE_ASM'],
    'dLong':    ['-DZSTD_FORCE_DECOMPRESS_SEQUENCES_LONG'],
    'dShort':   ['-DZSTD_FORCE_DECOMPRESS_SEQUENCES_SHORT'],
    'dNoLegacy': ['-UZSTD_LEGACY_SUPPORT', '-DZSTD_LEGACY_SUPPORT=0'],
    'dNoInl':   ['-DZSTD_NO_INLINE', '-DZSTD_STRIP_ERROR_STRINGS'],
}
for k, v in DEC_VARIANTS.items():
    VARIANTS[k] = ('clang', ['-O1', '-g'] + SAN + COMMON_DEFS + v)

LIB_DIRS = ['common', 'compress', 'decompress', 'dictBuilder', 'deprecated']
DEC_DIRS = ['common', 'decompress']
LEGACY = ['legacy/zstd_v05.c', 'legacy/zstd_v06.c', 'legacy/zstd_v07.c']


def sha(*parts):
    h = hashlib.sha256()
    for p in parts:
        if isinstance(p, str):
            p = p.encode()
        h.update(p)
        h.update(b'\0')
    return h.hexdigest()[:24]


_hdr_cache = {}


def headers_hash(roots):
    key = tuple(roots)
    if key in _hdr_cache:
        return _hdr_cache[key]
    h = hashlib.sha256()
    for r in roots:
        for dp, dn, fn in sorted(os.walk(r)):
            dn.sort()
            if '/obj' in dp or '/.git' in dp:
                continue
            for f in sorted(fn):
                if f.endswith(('.h', '.hpp', '.inc')):
                    p = os.path.join(dp, f)
                    h.update(p.encode())
                    with open(p, 'rb') as fh:
                        h.update(fh.read())
    _hdr_cache[key] = h.hexdigest()
    return _hdr_cache[key]


def compile_one(cc, src, flags, hdrhash, extra_key=''):
    with open(src, 'rb') as fh:
        body = fh.read()
    key = sha(cc, ' '.join(flags), hdrhash, src, body, extra_key + ('|noredirect2' if src.endswith('/threading.c') else ''))
    out = os.path.join(OBJ, key + '.o')
    if os.path.exists(out):
        return out, False
    os.makedirs(OBJ, exist_ok=True)
    tmp = out + '.tmp%d' % os.getpid()
    fl = list(flags)
    if src.endswith('/threading.c') and any(f.endswith('vf_malloc.h') for f in fl):
        # the DEBUGLEVEL>=1 threading layer mallocs every mutex/cond so that ASan sees a missing destroy; those
        # allocations do not exist in a release build and are not part of the fault domain
        fl.append('-DVF_NO_MALLOC_REDIRECT')
    if src.endswith('.S'):   # a force-included C header is meaningless (and fatal) for assembly sources
        while '-include' in fl:
            i = fl.index('-include'); del fl[i:i + 2]
    cmd = [cc] + fl + ['-c', src, '-o', tmp]
    r = subprocess.run(cmd, capture_output=True, text=True)
    if r.returncode != 0:
        sys.stderr.write('BUILD FAILED: %s\n%s\n' % (' '.join(map(shlex.quote, cmd)), r.stderr))
        raise SystemExit(2)
    os.replace(tmp, out)
    return out, True


def lib_sources(dirs, legacy=True):
    srcs = []
    for d in dirs:
        srcs += sorted(glob.glob(os.path.join(REPO, 'lib', d, '*.c')))
        srcs += sorted(glob.glob(os.path.join(REPO, 'lib', d, '*.S')))
    if legacy:
        srcs += [os.path.join(REPO, 'lib', p) for p in LEGACY]
    return srcs


def compile_many(cc, srcs, flags, hdr_roots, extra_key=''):
    hh = headers_hash(hdr_roots)
    with ThreadPoolExecutor(JOBS) as ex:
        res = list(ex.map(lambda s: compile_one(cc, s, flags, hh, extra_key), srcs))
    return [r[0] for r in res], sum(1 for r in res if r[1])


def build_variant(name, extra_srcs=(), extra_flags=()):
    """Return (archive path, number of objects rebuilt)."""
    cc, flags = VARIANTS[name]
    flags = list(flags) + list(extra_flags)
    inc = ['-I' + os.path.join(REPO, 'lib'), '-I' + os.path.join(REPO, 'lib', 'common')]
    dec_only = name in DEC_VARIANTS
    srcs = lib_sources(DEC_DIRS if dec_only else LIB_DIRS, legacy=(name != 'dNoLegacy'))
    srcs += list(extra_srcs)
    roots = [os.path.join(REPO, 'lib'), os.path.join(VERIF, 'sched'), os.path.join(VERIF, 'fault')]
    objs, n = compile_many(cc, srcs, flags + inc, roots)
    akey = sha(name, *objs)
    adir = os.path.join(BUILD, 'lib')
    os.makedirs(adir, exist_ok=True)
    ar = os.path.join(adir, '%s-%s.a' % (name, akey))
    if not os.path.exists(ar):
        tmp = ar + '.tmp%d' % os.getpid()
        if os.path.exists(tmp):
            os.unlink(tmp)
        subprocess.check_call(['ar', 'rcs', tmp] + objs)
        os.replace(tmp, ar)
    return ar, n


def build_renamed_variant(name):
    """Decoder variant linked relocatable with every defined global prefixed
    '<name>_' so several variants coexist in one binary."""
    ar, n = build_variant(name)
    out = ar[:-2] + '.renamed.o'
    if os.path.exists(out):
        return out, n
    tmp = out + '.tmp%d.o' % os.getpid()
    subprocess.check_call(['ld', '-r', '--whole-archive', ar, '-o', tmp])
    syms = subprocess.check_output(['nm', '--defined-only', '-g', tmp], text=True)
    mapf = tmp + '.map'
    with open(mapf, 'w') as fh:
        for line in syms.splitlines():
            parts = line.split()
            if len(parts) == 3 and not parts[2].startswith(('__asan', '__ubsan', '__sanitizer', '__sancov', '__odr_asan')):
                fh.write('%s %s_%s\n' % (parts[2], name, parts[2]))
    subprocess.check_call(['objcopy', '--redefine-syms=' + mapf, tmp])
    os.unlink(mapf)
    os.replace(tmp, out)
    return out, n


def build_cli():
    """programs/zstd built from the current tree (no zlib/lzma/lz4: its format set equals the library's), asserts on,
    statically linked so that a run is a short, mostly file-related system-call sequence. -> (path, rebuilt)"""
    cc = 'clang'
    flags = ['-O2', '-g', '-DZSTD_MULTITHREAD', '-DZSTD_LEGACY_SUPPORT=5', '-DDEBUGLEVEL=1', '-DXXH_NAMESPACE=ZSTD_', '-DBACKTRACE_ENABLE=0', '-pthread']
    inc = ['-I' + os.path.join(REPO, 'lib'), '-I' + os.path.join(REPO, 'lib', 'common'), '-I' + os.path.join(REPO, 'lib', 'compress'),
           '-I' + os.path.join(REPO, 'lib', 'dictBuilder'), '-I' + os.path.join(REPO, 'lib', 'deprecated'), '-I' + os.path.join(REPO, 'programs')]
    srcs = lib_sources(['common', 'compress', 'decompress', 'dictBuilder'], legacy=True) + sorted(glob.glob(os.path.join(REPO, 'programs', '*.c')))
    objs, n = compile_many(cc, srcs, flags + inc, [os.path.join(REPO, 'lib'), os.path.join(REPO, 'programs')], extra_key='cli')
    key = sha('cli', *objs)
    os.makedirs(os.path.join(BUILD, 'bin'), exist_ok=True)
    exe = os.path.join(BUILD, 'bin', 'zstd-cli-' + key)
    if not os.path.exists(exe):
        tmp = exe + '.tmp%d' % os.getpid()
        r = subprocess.run([cc, '-static', '-pthread', '-o', tmp] + objs, capture_output=True, text=True)
        if r.returncode:
            r = subprocess.run([cc, '-pthread', '-o', tmp] + objs, capture_output=True, text=True)
        if r.returncode:
            sys.stderr.write('CLI LINK FAILED\n' + r.stderr[-3000:]); raise SystemExit(2)
        os.replace(tmp, exe)
    return exe, n


if __name__ == '__main__':
    for v in sys.argv[1:]:
        a, n = build_variant(v)
        print(v, a, 'rebuilt=%d' % n)
