#!/bin/bash
# confirm_demo.sh <wt> '<build cmd>' '<run cmd>' : demo with and without patch (suite already confirmed by confirm_seed.sh)
WT=$1; B=$2; R=$3; S=$WT/_seed; L=$S/confirm.log
cd $WT; git checkout -q -- .; git apply $S/patch.diff; make -j8 >/dev/null 2>&1
sed -i '/demo exit/d' $L
(eval "$B") >/dev/null 2>&1; (eval "$R") > $S/demo_with.out 2>&1; echo "demo exit with patch: $?" >> $L
git checkout -q -- .; make -j8 >/dev/null 2>&1
(eval "$B") >/dev/null 2>&1; (eval "$R") > $S/demo_without.out 2>&1; echo "demo exit without patch: $?" >> $L
grep -E "exit|compiles" $L
