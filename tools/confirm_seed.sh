#!/bin/bash
# confirm_seed.sh <ID> <worktree> : confirms a seeded change independently of its author:
# applies, builds, runs the pinned suite, runs the demo with and without the change. Writes <wt>/_seed/confirm.log
ID=$1; WT=$2; S=$WT/_seed; L=$S/confirm.log
cd $WT || exit 2
git checkout -q -- . ; : > $L
git apply --check $S/patch.diff || { echo "patch does not apply" >> $L; exit 1; }
build_demo() {
  if [ -f $S/demo.c ]; then
    cmd=$(grep -m1 -oE '(cc|gcc|clang) [^*]*demo\.c[^*]*' $S/demo.c | sed 's/\*\/.*//')
    [ -z "$cmd" ] && cmd="cc -O1 -I$WT/lib -DZSTD_STATIC_LINKING_ONLY $S/demo.c $WT/lib/libzstd.a -lpthread -o $S/demo"
    (cd $S && eval "$cmd") >> $L 2>&1
  fi
}
run_demo() {
  if [ -f $S/demo.sh ] && [ ! -f $S/demo.c ]; then (cd $S && bash ./demo.sh) >> $L 2>&1; return $?; fi
  exe=$(ls -t $S | grep -vE '\.(c|sh|json|diff|log|txt)$' | head -1)
  (cd $S && ./$exe) >> $L 2>&1
}
echo "== WITH patch" >> $L
git apply $S/patch.diff
make -j8 >> $L.build 2>&1 || { echo "BUILD FAILED" >> $L; git checkout -q -- .; exit 1; }
echo "compiles: yes" >> $L
( make -k -j8 check VERBOSE=1 > $L.suite 2>&1 ); echo "suite exit with patch: $?" >> $L
build_demo; run_demo; echo "demo exit with patch: $?" >> $L
echo "== WITHOUT patch" >> $L
git checkout -q -- .
make -j8 >> $L.build 2>&1
build_demo; run_demo; echo "demo exit without patch: $?" >> $L
grep -E "exit|compiles" $L
