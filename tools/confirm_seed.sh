#!/bin/bash
# confirm_seed.sh <ID> <worktree> : confirms a seeded change independently of its author:
# applies, builds, runs the pinned suite, runs the demo with and without the change. Writes <wt>/_seed/confirm.log
ID=$1; WT=$2; S=$WT/_seed; L=$S/confirm.log
cd $WT || exit 2
git checkout -q -- . ; : > $L
git apply --check $S/patch.diff || { echo "patch does not apply" >> $L; exit 1; }
build_demo() {
  if [ -f $S/demo.c ]; then
    rm -f $S/demo
    (cc -O1 -I$WT/lib -I$WT/lib/common -I$WT/doc/educational_decoder -I$WT/contrib/seekable_format -o $S/demo $S/demo.c $WT/lib/libzstd.a -lpthread) >> $L 2>&1 || \
    (cc -O1 -DZSTD_MULTITHREAD -I$WT/lib -I$WT/lib/common -I$WT/contrib/seekable_format -o $S/demo $S/demo.c $WT/contrib/seekable_format/*.c $WT/lib/common/*.c $WT/lib/compress/*.c $WT/lib/decompress/*.c $WT/lib/dictBuilder/*.c $WT/lib/decompress/*.S -lpthread) >> $L 2>&1
  fi
}
run_demo() {
  if [ -f $S/demo.sh ] && [ ! -f $S/demo.c ]; then (cd $S && bash ./demo.sh) >> $L 2>&1; return $?; fi
  (cd $S && ./demo) >> $L 2>&1
}
echo "== WITH patch" >> $L
git apply $S/patch.diff
make -j8 >> $L.build 2>&1 || { echo "BUILD FAILED" >> $L; git checkout -q -- .; exit 1; }
echo "compiles: yes" >> $L
( make -k -j8 check VERBOSE=1 > $L.suite 2>&1 ); echo "suite exit with patch: $?" >> $L
build_demo; run_demo; echo "demo exit with patch: $?" >> $L
echo "== WITHOUT patch" >> $L
git checkout -q -- .
make -j8 >> $L.build 2>&1
build_demo; run_demo; echo "demo exit without patch: $?" >> $L
grep -E "exit|compiles" $L
