"""Run-time corpus builders for libFuzzer arms (nothing here is committed; built from /repo + own generators)."""
import os, re, glob, struct, subprocess, shutil
import build

CTL_SUFFIX = struct.pack('<9H', *reversed([0x3F3, 0, 0, 7, 1000, 4096, 0, 0, 0x37]))


def legacy_frames():
    """v0.5-0.7 frames cut out of tests/legacy.c's COMPRESSED blob by magic number."""
    src = open(os.path.join(build.REPO, 'tests', 'legacy.c'), errors='replace').read()
    m = re.search(r'const char\* const COMPRESSED =\s*((?:\s*"(?:[^"\\]|\\.)*"\s*)+);', src)
    if not m:
        return []
    blob = bytearray()
    for lit in re.findall(r'"((?:[^"\\]|\\.)*)"', m.group(1)):
        for esc in re.findall(r'\\x([0-9A-Fa-f]{2})', lit):
            blob.append(int(esc, 16))
    blob = bytes(blob)
    magics = [struct.pack('<I', 0xFD2FB520 + k) for k in range(1, 9)]
    starts = sorted(i for mg in magics for i in [m.start() for m in re.finditer(re.escape(mg), blob)])
    out = []
    for a, b in zip(starts, starts[1:] + [len(blob)]):
        fr = blob[a:b]
        if fr[:4] in magics[4:7]:   # v0.5, v0.6, v0.7
            out.append(fr)
    return out


def c03_corpus(outdir, rc_exe, env):
    os.makedirs(outdir, exist_ok=True)
    n = 0
    for d in ('golden-decompression', 'golden-decompression-errors'):
        for f in sorted(glob.glob(os.path.join(build.REPO, 'tests', d, '*'))):
            b = open(f, 'rb').read()
            if len(b) > 20000:
                continue
            if len(b) & 1:
                b += b'\0'
            open(os.path.join(outdir, 'golden-%d' % n), 'wb').write(b + CTL_SUFFIX)
            n += 1
    for i, fr in enumerate(legacy_frames()):
        if len(fr) & 1:
            fr += b'\0'
        open(os.path.join(outdir, 'legacy-%d' % i), 'wb').write(fr + CTL_SUFFIX)
    # frames written by the generators themselves
    e = dict(env)
    e['VF_DUMP_CORPUS'] = outdir
    e['VF_OUT'] = outdir + '.tmp'
    os.makedirs(e['VF_OUT'], exist_ok=True)
    e['RC_PARAMS'] = 'seed=7 max_success=150 max_size=100'
    e['VF_TAPE_MAX'] = '256'
    subprocess.run([rc_exe], env=e, stdout=subprocess.DEVNULL, stderr=subprocess.DEVNULL, timeout=600)
    shutil.rmtree(e['VF_OUT'], ignore_errors=True)
    return outdir


def c08_corpus(outdir, rc_exe, env):
    """golden dictionary + a little content + control words (level, mode, attach, split) for the dictionary fuzz arm"""
    os.makedirs(outdir, exist_ok=True)
    g = open(os.path.join(build.REPO, 'tests', 'golden-dictionaries', 'http-dict-missing-symbols'), 'rb').read()
    content = (b'GET /index.html HTTP/1.1\r\nHost: example.com\r\n' * 6)[:256]
    for mode in range(6):
        body = g + content
        if len(body) & 1:
            body += b'\0'
        # controls are read from the END: lvl, mode, attach, split
        ctl = struct.pack('<4H', len(g) & 0xFFFF, 0, mode, 6)
        open(os.path.join(outdir, 'golden-%d' % mode), 'wb').write(body + ctl)
    return outdir


def c20_corpus(outdir, rc_exe, env):
    """small seekable archives written by the generator itself (+ trailing control words)"""
    os.makedirs(outdir, exist_ok=True)
    e = dict(env)
    e['VF_DUMP_CORPUS'] = outdir
    e['VF_OUT'] = outdir + '.tmp'
    os.makedirs(e['VF_OUT'], exist_ok=True)
    e['RC_PARAMS'] = 'seed=11 max_success=120 max_size=100'
    e['VF_TAPE_MAX'] = '256'
    subprocess.run([rc_exe], env=e, stdout=subprocess.DEVNULL, stderr=subprocess.DEVNULL, timeout=600)
    shutil.rmtree(e['VF_OUT'], ignore_errors=True)
    return outdir


def c04_corpus(outdir, rc_exe, env):
    """golden frames as they are (no control words: the whole input must be a frame sequence for strict R)"""
    os.makedirs(outdir, exist_ok=True)
    n = 0
    for d in ('golden-decompression',):
        for f in sorted(glob.glob(os.path.join(build.REPO, 'tests', d, '*'))):
            b = open(f, 'rb').read()
            if len(b) <= 20000:
                open(os.path.join(outdir, 'golden-%d' % n), 'wb').write(b); n += 1
    return outdir
