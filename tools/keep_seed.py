#!/usr/bin/env python3
"""keep_seed.py <ID> <name> <caught_by text> : file a confirmed seeded change under /verif/seeded/<name>/"""
import sys, os, json, shutil
pid, name, caught = sys.argv[1], sys.argv[2], sys.argv[3]
src = '/tmp/wt-%s/_seed' % (sys.argv[4] if len(sys.argv) > 4 else pid)
dst = '/verif/seeded/' + name
os.makedirs(dst, exist_ok=True)
for f in os.listdir(src):
    if f.endswith(('.diff', '.c', '.sh', '.cpp', '.py')) or f == 'meta.json':
        shutil.copy(os.path.join(src, f), dst)
m = json.load(open(os.path.join(dst, 'meta.json')))
conf = open(os.path.join(src, 'confirm.log')).read()
m['confirmed_by_me'] = [l for l in conf.splitlines() if 'exit' in l or 'compiles' in l]
m['property'] = pid
m['detected_by'] = caught
json.dump(m, open(os.path.join(dst, 'meta.json'), 'w'), indent=1)
print('kept', dst, m['confirmed_by_me'])
