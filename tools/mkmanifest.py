#!/usr/bin/env python3
"""Regenerates MANIFEST.json from tools/registry.py (claimed checks) and validates it."""
import json, os, sys
sys.path.insert(0, os.path.dirname(os.path.abspath(__file__)))
import registry
VERIF = os.path.dirname(os.path.dirname(os.path.abspath(__file__)))
props = [json.loads(l)['id'] for l in open(os.path.join(VERIF, 'properties.jsonl'))]
checks = []
na = []
for pid in props:
    if pid in registry.REG and not registry.REG[pid].get('disabled'):
        s = registry.REG[pid]
        checks.append({
            'property_id': pid,
            'quick_cmd': './check %s --tier quick' % pid,
            'thorough_cmd': './check %s --tier thorough' % pid,
            'evidence_file': 'evidence/%s.json' % pid,
            'replay_cmd_template': './check %s --replay {path}' % pid,
            'engine': 'vf',
            'level_claimed': {'category': s['level'], 'text': s.get('level_text', s['rule'][:400]), 'design_ref': 'DESIGN.md section 5, ' + pid},
            'level_note': '; '.join(s['assumptions'])[:1500],
            'technique': s.get('technique', 'property-based testing (rapidcheck choice tapes) + coverage-guided fuzzing (libFuzzer) against an explicit oracle'),
        })
    else:
        na.append({'property_id': pid, 'reason': registry.NA.get(pid, 'check not built yet in this revision; no claim is made')})
m = {
    'version': 1,
    'setup_cmd': 'python3 tools/setup.py',
    'hooks': {
        'guard': 'ZSTD_VERIF_PROBES',
        'enable': 'tools/build.py compiles /repo/lib with -DZSTD_VERIF_PROBES into /verif/build (never inside /repo)',
        'baseline_off_cmd': 'cd /repo && make -j16 && make -k -j8 check VERBOSE=1',
        'source_commits': registry.HOOK_COMMITS,
        'add_only': True,
    },
    'engines': [{'name': 'vf', 'path': 'tools/runner.py', 'serves_properties': [c['property_id'] for c in checks],
                 'kind_free_text': 'choice-tape property engine: rapidcheck generates/shrinks uint16 tapes, libFuzzer mutates the same tapes, TapeChooser replays; python driver shards, ddmin-minimises, triple-replays and writes evidence'}],
    'checks': checks,
    'not_applicable': na,
    'notes': 'All checks build the code under test from /repo working tree into /verif/build with a content-hash cache. See DESIGN.md.',
}
json.dump(m, open(os.path.join(VERIF, 'MANIFEST.json'), 'w'), indent=1)
try:
    import jsonschema
    jsonschema.validate(m, json.load(open('/root/.vp/MANIFEST.schema.json')))
    print('MANIFEST.json valid;', len(checks), 'checks,', len(na), 'not claimed')
except ImportError:
    print('jsonschema not importable here; wrote MANIFEST.json unvalidated')
