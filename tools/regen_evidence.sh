#!/bin/bash
# regenerate every evidence file with a clean quick run on the current (unchanged) tree
cd /verif
git -C /repo status --short | grep -q . && { echo "/repo not clean"; exit 2; }
for id in $(python3 -c "import sys; sys.path.insert(0,'tools'); import registry; print(' '.join(k for k,v in registry.REG.items() if not v.get('disabled')))"); do
  ./check $id --tier quick 2>&1 | grep -E "tier=|VIOLATION|machinery|inconclusive" | cut -c1-200
done
