"""Check runner: builds the code under test from /repo's working tree, builds the
harness, replays saved regressions, runs the generated search in shards, shrinks
and triple-replays failures, writes evidence."""
import os, sys, json, time, subprocess, hashlib, shutil, struct, glob, re, signal
from concurrent.futures import ThreadPoolExecutor
import build

VERIF = build.VERIF
REPO = build.REPO
BIN = os.path.join(build.BUILD, 'bin')
RUN = os.path.join(build.BUILD, 'run')
HARN = os.path.join(VERIF, 'harness')

SAN_ENV = {
    'ASAN_OPTIONS': 'allocator_may_return_null=1:detect_leaks=0:handle_abort=1:exitcode=77:detect_stack_use_after_return=0:malloc_context_size=12',
    'UBSAN_OPTIONS': 'print_stacktrace=1:halt_on_error=1:exitcode=77',
    'TSAN_OPTIONS': 'exitcode=77:halt_on_error=1:second_deadlock_stack=1',
}

HX_FLAGS_SAN = ['-std=gnu++17', '-O1', '-g', '-fsanitize=address,undefined', '-fno-sanitize-recover=undefined', '-fno-omit-frame-pointer']
HX_FLAGS_PLAIN = ['-std=gnu++17', '-O1', '-g']
HX_FLAGS_TSAN = ['-std=gnu++17', '-O1', '-g', '-fsanitize=thread']


def log(*a):
    print(*a, file=sys.stderr, flush=True)


def hx_flags(variant):
    if variant == 'plain':
        return HX_FLAGS_PLAIN
    if variant.startswith('tsan'):
        return HX_FLAGS_TSAN
    return HX_FLAGS_SAN


def build_arm(arm):
    """Build library variant(s) + harness for an arm; returns dict(rc=path, fuzz=path|None)."""
    variant = arm.get('variant', 'asan')
    t0 = time.time()
    lib, nreb = build.build_variant(variant, extra_srcs=[os.path.join(REPO, p) for p in arm.get('extra_repo_srcs', [])],
                                    extra_flags=arm.get('extra_lib_flags', []))
    extra_objs = []
    for dv in arm.get('dec_variants', []):
        o, n2 = build.build_renamed_variant(dv)
        extra_objs.append(o)
        nreb += n2
    inc = ['-I' + os.path.join(REPO, 'lib'), '-I' + os.path.join(REPO, 'lib', 'common'), '-I' + HARN, '-I' + VERIF,
           '-I' + os.path.join(REPO, 'contrib', 'seekable_format'), '-I' + os.path.join(REPO, 'lib', 'deprecated'),
           '-I' + os.path.join(REPO, 'lib', 'dictBuilder'), '-I' + os.path.join(REPO, 'lib', 'compress'),
           '-I' + os.path.join(REPO, 'lib', 'decompress'), '-I' + os.path.join(REPO, 'lib', 'legacy')]
    flags = hx_flags(variant) + inc + arm.get('hx_flags', []) + ['-DZSTD_MULTITHREAD', '-DZSTD_LEGACY_SUPPORT=5']
    roots = [os.path.join(REPO, 'lib'), HARN, os.path.join(VERIF, 'gen'), os.path.join(VERIF, 'oracle'),
             os.path.join(VERIF, 'sched'), os.path.join(VERIF, 'fault'), os.path.join(REPO, 'contrib', 'seekable_format')]
    srcs = [os.path.join(HARN, 'vf_core.cpp')] + [os.path.join(VERIF, s) for s in arm['srcs']]
    cxx_srcs = [s for s in srcs if s.endswith('.cpp')]
    c_srcs = [s for s in srcs if s.endswith('.c')]
    objs, _ = build.compile_many('clang++', cxx_srcs, flags, roots)
    cflags = [f for f in flags if f != '-std=gnu++17']
    cobjs, _ = build.compile_many('clang', c_srcs, cflags + arm.get('c_flags', []), roots)
    objs += cobjs
    out = {}
    os.makedirs(BIN, exist_ok=True)
    link_san = [f for f in hx_flags(variant) if f.startswith('-fsanitize') or f.startswith('-fno-sanitize')]
    libs = arm.get('link_libs', [])
    if arm.get('rc', True):
        main_o, _ = build.compile_many('clang++', [os.path.join(HARN, 'vf_main_rc.cpp')], flags, roots)
        key = build.sha('rc', lib, *(objs + main_o + extra_objs + libs))
        exe = os.path.join(BIN, '%s-rc-%s' % (arm['name'], key))
        if not os.path.exists(exe):
            cmd = ['clang++'] + link_san + ['-o', exe + '.tmp'] + objs + main_o + extra_objs + [lib, '-lrapidcheck', '-lpthread'] + libs
            r = subprocess.run(cmd, capture_output=True, text=True)
            if r.returncode:
                log(r.stderr[-4000:]); raise SystemExit(2)
            os.replace(exe + '.tmp', exe)
        out['rc'] = exe
    if arm.get('fuzz'):
        main_o, _ = build.compile_many('clang++', [os.path.join(HARN, 'vf_main_fuzz.cpp')], flags, roots)
        key = build.sha('fz', lib, *(objs + main_o + extra_objs + libs))
        exe = os.path.join(BIN, '%s-fz-%s' % (arm['name'], key))
        if not os.path.exists(exe):
            cmd = ['clang++', '-fsanitize=fuzzer'] + link_san + ['-o', exe + '.tmp'] + objs + main_o + extra_objs + [lib, '-lpthread'] + libs
            r = subprocess.run(cmd, capture_output=True, text=True)
            if r.returncode:
                log(r.stderr[-4000:]); raise SystemExit(2)
            os.replace(exe + '.tmp', exe)
        out['fuzz'] = exe
    if arm.get('cli'):
        cli, n3 = build.build_cli()
        nreb += n3
        arm.setdefault('env', {})['VF_ZSTD_CLI'] = cli
    out['build_s'] = round(time.time() - t0, 1)
    out['rebuilt'] = nreb
    return out


def base_env(tier, extra=None):
    env = dict(os.environ)
    env.update(SAN_ENV)
    env['VERIF_TIER'] = tier
    env['VERIF_DIR'] = VERIF
    env['VERIF_REPO'] = REPO
    if extra:
        env.update(extra)
    return env


def run_replay(exe, tape, tier, env_extra=None, timeout=300, fuzz=False):
    """-> (status, text)  status in pass|fail|crash|discard|timeout"""
    out = os.path.join(RUN, 'replay', '%d-%s' % (os.getpid(), hashlib.md5((tape + str(time.time())).encode()).hexdigest()[:8]))
    os.makedirs(out, exist_ok=True)
    env = base_env(tier, env_extra)
    env['VF_OUT'] = out
    cmd = [exe, tape] if fuzz else [exe, '--replay', tape]
    try:
        r = subprocess.run(cmd, capture_output=True, text=True, env=env, timeout=timeout, errors='replace')
    except subprocess.TimeoutExpired:
        shutil.rmtree(out, ignore_errors=True)
        return 'timeout', ''
    shutil.rmtree(out, ignore_errors=True)
    txt = (r.stdout or '') + (r.stderr or '')
    if fuzz:
        if r.returncode == 0:
            return 'pass', txt
        return ('fail' if 'VF-FAIL' in txt else 'crash'), txt
    if r.returncode == 0:
        return 'pass', txt
    if r.returncode == 3:
        return 'discard', txt
    if r.returncode == 1 and 'REPLAY-FAIL' in txt:
        return 'fail', txt
    return 'crash', txt


def read_tape(path):
    b = open(path, 'rb').read()
    if len(b) & 1:
        b += b'\0'
    return list(struct.unpack('<%dH' % (len(b) // 2), b))


def write_tape(path, t):
    with open(path, 'wb') as f:
        f.write(struct.pack('<%dH' % len(t), *t))


def minimise(exe, tape_path, tier, env_extra, budget, fuzz=False, timeout=40):
    """tape-level ddmin: delete chunks, then zero / halve values. Bounded by a replay budget AND a wall-clock cap
    (a cap on *minimisation effort* only: the verdict comes from the three confirming replays afterwards)."""
    tape = read_tape(tape_path)
    t_end = time.time() + (150 if tier == 'quick' else 900)
    work = os.path.join(RUN, 'min-%d' % os.getpid())
    os.makedirs(work, exist_ok=True)
    used = [0]

    def fails(cands):
        # evaluate candidates in parallel, return index of first failing
        paths = []
        for i, cnd in enumerate(cands):
            p = os.path.join(work, 'c%d.tape' % i)
            write_tape(p, cnd)
            paths.append(p)
        used[0] += len(cands)
        with ThreadPoolExecutor(16) as ex:
            res = list(ex.map(lambda p: run_replay(exe, p, tier, env_extra, timeout, fuzz)[0], paths))
        for i, s in enumerate(res):
            if s in ('fail', 'crash'):
                return i
        return -1

    if fails([tape]) < 0:
        shutil.rmtree(work, ignore_errors=True)
        return tape_path, False
    # (trailing zeros are NOT stripped blindly: generators may consult exhausted(), so every shortening is verified by a replay)
    chunk = max(1, len(tape) // 2)
    while chunk >= 1 and used[0] < budget and time.time() < t_end:
        i = 0
        progress = False
        cands, idx = [], []
        while i < len(tape):
            cands.append(tape[:i] + tape[i + chunk:]); idx.append(i)
            i += chunk
            if len(cands) == 16 or i >= len(tape):
                k = fails(cands)
                if k >= 0:
                    tape = cands[k]; progress = True
                    i = idx[k]
                cands, idx = [], []
                if used[0] >= budget or time.time() > t_end:
                    break
        if not progress:
            chunk //= 2
    # value pass
    j = 0
    while j < len(tape) and used[0] < budget and time.time() < t_end:
        cands, idx = [], []
        for k in range(j, min(len(tape), j + 16)):
            if tape[k] != 0:
                cands.append(tape[:k] + [0] + tape[k + 1:]); idx.append(k)
        if cands:
            k = fails(cands)
            if k >= 0:
                tape = cands[k]
                continue
        j += 16
    outp = tape_path + '.min'
    write_tape(outp, tape)
    shutil.rmtree(work, ignore_errors=True)
    return outp, True


def confirm3(exe, tape, tier, env_extra, fuzz=False):
    msgs = []
    for _ in range(3):
        s, txt = run_replay(exe, tape, tier, env_extra, 600, fuzz)
        if s not in ('fail', 'crash'):
            return False, txt
        msgs.append(txt)
    return True, msgs[-1]


def summarize_failure(txt):
    for pat in (r'REPLAY-FAIL [^:]*: (.*)', r'VF-FAIL (.*)', r'(ERROR: AddressSanitizer[^\n]*)', r'(SUMMARY: [^\n]*)', r'([^\n]*runtime error:[^\n]*)', r'(Assertion[^\n]*)', r'([^\n]*ThreadSanitizer[^\n]*)'):
        m = re.search(pat, txt)
        if m:
            s = m.group(1)
            # add first frames inside /repo for site identification
            fr = re.findall(r'#\d+ 0x[0-9a-f]+ in (\S+) (/repo/\S+)', txt)
            if fr:
                s += ' @ ' + ' <- '.join('%s %s' % (a, os.path.basename(b)) for a, b in fr[:3])
            return s[:600]
    return txt[-400:]


def load_known(pid):
    path = os.path.join(VERIF, 'known_findings.jsonl')
    res = []
    if os.path.exists(path):
        for line in open(path):
            line = line.strip()
            if not line:
                continue
            e = json.loads(line)
            if e.get('property') == pid:
                res.append(e)
    return res


def run_rc_arm(pid, arm, bins, tier, seed, res):
    cfg = arm[tier]
    shards = cfg.get('shards', 16)
    exe = bins['rc']
    base = os.path.join(RUN, pid, arm['name'], tier)
    shutil.rmtree(base, ignore_errors=True)
    procs = []
    for i in range(shards):
        out = os.path.join(base, 's%d' % i)
        os.makedirs(out)
        env = base_env(tier, arm.get('env'))
        env['VF_OUT'] = out
        env['VF_SHARD'] = str(i)
        env['VF_TAPE_MAX'] = str(cfg.get('tape', 1024))
        env['RC_PARAMS'] = 'seed=%d max_success=%d max_size=100 max_discard_ratio=1000' % (seed * 64 + i + 1 + 100003 * arm.get('_index', 0), cfg['cases'])
        lf = open(os.path.join(out, 'log'), 'w')
        p = subprocess.Popen([exe], env=env, stdout=lf, stderr=subprocess.STDOUT, cwd=out, start_new_session=True)
        procs.append((i, p, out, lf))
    deadline = time.time() + cfg.get('timeout', 1500 if tier == 'quick' else 7200)
    cands = []
    for i, p, out, lf in procs:
        try:
            rc = p.wait(timeout=max(1, deadline - time.time()))
        except subprocess.TimeoutExpired:
            try:
                os.killpg(p.pid, signal.SIGKILL)
            except Exception:
                p.kill()
            p.wait()
            rc = 'timeout'
            res['inconclusive'].append('%s shard %d hit the wall-clock budget (not a verdict)' % (arm['name'], i))
        lf.close()
        merge_stats(out, arm['name'], res)
        if rc == 0 or rc == 'timeout':
            continue
        ft, ct = os.path.join(out, 'fail.tape'), os.path.join(out, 'crash.tape')
        if rc == 1 and os.path.exists(ft):
            cands.append((ft, exe, False))
        elif os.path.exists(ct):
            cands.append((ct, exe, False))
        elif os.path.exists(os.path.join(out, 'cur.tape')):
            cands.append((os.path.join(out, 'cur.tape'), exe, False))
        else:
            res['inconclusive'].append('%s shard %d exited %r with no tape; see %s/log' % (arm['name'], i, rc, out))
            res['hard_error'] = True
    return cands


def merge_stats(out, arm_name, res):
    sp = os.path.join(out, 'stats.json')
    if not os.path.exists(sp):
        return
    try:
        s = json.load(open(sp))
    except Exception:
        return
    res['evaluations'] += s['cases']
    res['pass'] += s['pass']
    res['discard'] += s['discard']
    res['nontrivial'] += s['nontrivial']
    for k, v in s['labels'].items():
        res['labels'][k] = res['labels'].get(k, 0) + v
    for k, v in s.get('maxima', {}).items():
        res['maxima'][k] = max(res['maxima'].get(k, 0), v)
    for sm in s['samples'][:2]:
        if len(res['samples']) < 10:
            res['samples'].append('[%s] %s' % (arm_name, sm))
    nb = os.path.join(out, 'nt.bin')
    if os.path.exists(nb):
        b = open(nb, 'rb').read()
        res['nt'].update(struct.unpack('<%dQ' % (len(b) // 8), b))


def run_fuzz_arm(pid, arm, bins, tier, seed, res):
    cfg = arm['fuzz'][tier]
    exe = bins['fuzz']
    shards = cfg.get('shards', 16)
    base = os.path.join(RUN, pid, arm['name'] + '-fz', tier)
    shutil.rmtree(base, ignore_errors=True)
    seeds = [os.path.join(VERIF, d) for d in arm['fuzz'].get('corpus', []) if os.path.isdir(os.path.join(VERIF, d))]
    if arm['fuzz'].get('corpus_builder'):
        import corpus
        cdir = os.path.join(base, 'seedcorpus')
        os.makedirs(base, exist_ok=True)
        getattr(corpus, arm['fuzz']['corpus_builder'])(cdir, bins.get('rc'), base_env(tier, arm.get('env')))
        seeds.append(cdir)
        res['labels']['seed_corpus_files:' + arm['name']] = len(os.listdir(cdir))
    seeds += [os.path.join(REPO, d) for d in arm['fuzz'].get('repo_corpus', []) if os.path.isdir(os.path.join(REPO, d))]
    procs = []
    for i in range(shards):
        out = os.path.join(base, 's%d' % i)
        corp = os.path.join(out, 'corpus')
        os.makedirs(corp)
        env = base_env(tier, arm.get('env'))
        env['VF_OUT'] = out
        env['VF_FUZZ'] = '1'
        cmd = [exe, '-seed=%d' % (seed * 64 + i + 1), '-runs=%d' % cfg['runs'], '-max_len=%d' % arm['fuzz'].get('max_len', 8192),
               '-artifact_prefix=' + out + '/', '-print_final_stats=1', '-timeout=60', '-rss_limit_mb=3000', '-len_control=50',
               '-detect_leaks=0', '-reload=0']
        if arm['fuzz'].get('dict'):
            cmd.append('-dict=' + os.path.join(VERIF, arm['fuzz']['dict']))
        # every other shard starts from an empty corpus (both starting points matter)
        cmd.append(corp)
        if i % 4 != 3:
            cmd += seeds
        lf = open(os.path.join(out, 'log'), 'w')
        p = subprocess.Popen(cmd, env=env, stdout=lf, stderr=subprocess.STDOUT, cwd=out, start_new_session=True)
        procs.append((i, p, out, lf))
    deadline = time.time() + cfg.get('timeout', 1500 if tier == 'quick' else 7200)
    cands = []
    execs = 0
    for i, p, out, lf in procs:
        try:
            rc = p.wait(timeout=max(1, deadline - time.time()))
        except subprocess.TimeoutExpired:
            try:
                os.killpg(p.pid, signal.SIGKILL)
            except Exception:
                p.kill()
            p.wait(); rc = 'timeout'
            res['inconclusive'].append('%s fuzz shard %d hit the wall-clock budget' % (arm['name'], i))
        lf.close()
        merge_stats(out, arm['name'] + '-fz', res)
        try:
            txt = open(os.path.join(out, 'log'), errors='replace').read()
            m = re.search(r'stat::number_of_executed_units:\s*(\d+)', txt)
            if m:
                execs += int(m.group(1))
        except Exception:
            pass
        for a in glob.glob(os.path.join(out, 'crash-*')) + glob.glob(os.path.join(out, 'leak-*')):
            cands.append((a, exe, True))
        # timeout-/oom-/slow-unit- artifacts are load noise by design
        shutil.rmtree(os.path.join(out, 'corpus'), ignore_errors=True)
    res['labels']['fuzz_execs:' + arm['name']] = execs
    return cands


def run_enum_arm(pid, arm, bins, tier, seed, res):
    """Exhaustive enumeration of a finite grid: one tape per cell = prefix + mixed-radix index."""
    import itertools
    en = arm['enumerate']
    exe = bins['rc']
    base = os.path.join(RUN, pid, arm['name'] + '-enum', tier)
    shutil.rmtree(base, ignore_errors=True)
    os.makedirs(base)
    cells = list(itertools.product(*[range(d) for d in en['dims']]))
    tapes = []
    for cell in cells:
        tp = os.path.join(base, 'cell-' + '-'.join(map(str, cell)) + '.tape')
        write_tape(tp, list(en.get('prefix', [])) + list(cell))
        tapes.append(tp)
    # one process per cell: a crash in one cell cannot hide the cells after it
    cands = []
    done_cells = [0]
    def run_cell(tp):
        out = tp[:-5] + '.out'
        os.makedirs(out, exist_ok=True)
        env = base_env(tier, arm.get('env'))
        env['VF_OUT'] = out
        try:
            r = subprocess.run([exe, '--replay', tp], env=env, capture_output=True, text=True, errors='replace', timeout=en.get('timeout', 1200), cwd=out)
            rc, txt = r.returncode, (r.stdout or '') + (r.stderr or '')
        except subprocess.TimeoutExpired:
            rc, txt = 'timeout', ''
        with open(os.path.join(out, 'log'), 'w') as lf:
            lf.write(txt)
        return tp, out, rc, txt
    with ThreadPoolExecutor(16) as ex:
        results = list(ex.map(run_cell, tapes))
    for tp, out, rc, txt in results:
        merge_stats(out, arm['name'] + '-enum', res)
        if rc == 'timeout':
            res['inconclusive'].append('%s enumeration cell %s hit the wall-clock budget' % (arm['name'], os.path.basename(tp)))
            continue
        done_cells[0] += 1
        if rc not in (0, 3):
            cands.append((tp, exe, False))
    done_cells = done_cells[0]
    res['labels']['enumerated_cells'] = len(cells)
    res['labels']['enumerated_cells_done'] = done_cells
    if done_cells >= len(cells) and not cands:
        res['labels']['exhaustive_ok'] = 1
    return cands


def new_res():
    return dict(evaluations=0, nontrivial=0, labels={}, maxima={}, samples=[], nt=set(), inconclusive=[], **{'pass': 0, 'discard': 0}, hard_error=False)


def main(argv):
    import registry
    import argparse
    ap = argparse.ArgumentParser()
    ap.add_argument('pid')
    ap.add_argument('--tier', default=os.environ.get('VERIF_TIER', 'quick'), choices=['quick', 'thorough'])
    ap.add_argument('--seed', type=int, default=int(os.environ.get('VERIF_SEED', '1') or 1))
    ap.add_argument('--replay')
    ap.add_argument('--build-only', action='store_true')
    ap.add_argument('--arm')
    a = ap.parse_args(argv)
    pid = a.pid
    if pid not in registry.REG:
        log('unknown property', pid); return 2
    spec = registry.REG[pid]
    t0 = time.time()
    for _i, _arm in enumerate(spec['arms']):
        _arm['_index'] = _i
    arms = [arm for arm in spec['arms'] if not a.arm or arm['name'] == a.arm]
    bins = {}
    for arm in arms:
        if arm.get('kind') == 'py':
            continue
        bins[arm['name']] = build_arm(arm)
        log('[%s] built arm %s in %ss (rebuilt %d lib objects)' % (pid, arm['name'], bins[arm['name']]['build_s'], bins[arm['name']]['rebuilt']))
    if a.build_only:
        return 0
    seed = a.seed & 0x3FFFFFF

    if a.replay:
        path = os.path.abspath(a.replay)
        is_fuzz = os.path.basename(path).startswith('fuzz-')
        armname = None
        m = re.match(r'(?:fuzz-)?([A-Za-z0-9_]+?)--', os.path.basename(path))
        if m:
            armname = m.group(1)
        arm = next((x for x in arms if x['name'] == armname), arms[0])
        if arm.get('kind') == 'py':
            return arm['replay'](path, a.tier)
        exe = bins[arm['name']]['fuzz' if is_fuzz else 'rc']
        s, txt = run_replay(exe, path, a.tier, arm.get('env'), 1200, is_fuzz)
        print(txt[-6000:])
        if s in ('fail', 'crash'):
            print('VIOLATION property=%s replay=%s' % (pid, path))
            return 1
        print('replay status:', s)
        return 0

    res = new_res()
    violations = []   # (path, summary)
    known_hits = []
    vdir = os.path.join(VERIF, 'violations', pid)

    def handle_candidates(cands, arm):
        seen_summ = set()
        tried = 0
        # smallest tapes first; one confirmed violation ends a quick run, three a thorough one
        cands = sorted(cands, key=lambda x: os.path.getsize(x[0]))
        for tape, exe, is_fuzz in cands:
            if len(violations) >= (1 if a.tier == 'quick' else 3) or tried >= (3 if a.tier == 'quick' else 8):
                break
            tried += 1
            budget = 250 if a.tier == 'quick' else 1500
            try:
                mt, still = minimise(exe, tape, a.tier, arm.get('env'), budget, is_fuzz)
            except Exception as e:
                log('minimise failed', e); mt, still = tape, True
            ok, txt = (False, '')
            if still:
                ok, txt = confirm3(exe, mt, a.tier, arm.get('env'), is_fuzz)
            if not ok:
                # Threaded code: a sanitizer report inside the library is evidence of a violation on the execution that
                # produced it even when the schedule does not recur on replay. Such a report is kept (tape + report) and
                # counted as a violation only for arms that run library threads and only when the report's frames are in /repo.
                logp = os.path.join(os.path.dirname(tape), 'log')
                rep = open(logp, errors='replace').read() if os.path.exists(logp) else ''
                m = re.search(r'(ERROR: AddressSanitizer|WARNING: ThreadSanitizer|runtime error:)', rep)
                # the ACCESS sites (frame #0 of each stack in the report) must be inside /repo: a race between two harness
                # statements that merely run on a library thread is a harness bug, not a finding
                sites = re.findall(r'^\s*#0 \S+ (?:in )?\S+ (/\S+?):\d+', rep, re.M)
                in_repo = any(sx.startswith(REPO + '/') for sx in sites) if sites else ((REPO + '/lib') in rep)
                if arm.get('threads') and m and in_repo:
                    for _ in range(12):   # try harder to reproduce before falling back to the recorded report
                        s2, t2 = run_replay(exe, tape, a.tier, arm.get('env'), 600, is_fuzz)
                        if s2 in ('fail', 'crash'):
                            txt = t2; break
                    else:
                        txt = rep[m.start():m.start() + 8000] + '\n[schedule-dependent: did not recur in 12 replays; report taken from the run log]'
                    mt = tape
                    ok = True
                    res['labels']['schedule_dependent_reports'] = res['labels'].get('schedule_dependent_reports', 0) + 1
                else:
                    res['inconclusive'].append('failure %s from its tape: %s' % ('not stable over three replays' if still else 'did not reproduce', tape))
                    res['labels']['unreproduced_failures'] = res['labels'].get('unreproduced_failures', 0) + 1
                    continue
            summ = summarize_failure(txt)
            norm = re.sub(r'0x[0-9a-f]+|\d+', '#', summ)
            if norm in seen_summ:
                continue
            seen_summ.add(norm)
            os.makedirs(vdir, exist_ok=True)
            h = hashlib.sha256(open(mt, 'rb').read()).hexdigest()[:12]
            name = ('fuzz-' if is_fuzz else '') + arm['name'] + '--' + h + ('.bin' if is_fuzz else '.tape')
            dest = os.path.join(vdir, name)
            shutil.copyfile(mt, dest)
            with open(dest + '.txt', 'w') as f:
                f.write(txt[-8000:])
            violations.append((dest, summ))

    # 1. replay tier: saved regressions first
    for arm in arms:
        if arm.get('kind') == 'py':
            continue
        rdir = os.path.join(VERIF, 'regress', pid)
        tapes = sorted(glob.glob(os.path.join(rdir, arm['name'] + '--*.tape')))
        ftapes = sorted(glob.glob(os.path.join(rdir, 'fuzz-' + arm['name'] + '--*.bin')))
        cands = []
        for tp in tapes:
            s, txt = run_replay(bins[arm['name']]['rc'], tp, a.tier, arm.get('env'), 600, False)
            res['labels']['regress_replayed'] = res['labels'].get('regress_replayed', 0) + 1
            res['evaluations'] += 1
            if s in ('fail', 'crash'):
                cands.append((tp, bins[arm['name']]['rc'], False))
        for tp in ftapes:
            if 'fuzz' not in bins[arm['name']]:
                continue
            s, txt = run_replay(bins[arm['name']]['fuzz'], tp, a.tier, arm.get('env'), 600, True)
            res['labels']['regress_replayed'] = res['labels'].get('regress_replayed', 0) + 1
            res['evaluations'] += 1
            if s in ('fail', 'crash'):
                cands.append((tp, bins[arm['name']]['fuzz'], True))
        if cands:
            handle_candidates(cands, arm)

    # 2. generated search
    for arm in arms:
        if violations:
            break
        if arm.get('kind') == 'py':
            pyres = arm['run'](pid, arm, a.tier, seed, res)
            for v in pyres or []:
                violations.append(v)
            continue
        if arm.get('enumerate'):
            cands = run_enum_arm(pid, arm, bins[arm['name']], a.tier, seed, res)
            handle_candidates(cands, arm)
        if violations:
            break
        if arm.get('rc', True) and a.tier in arm:
            cands = run_rc_arm(pid, arm, bins[arm['name']], a.tier, seed, res)
            handle_candidates(cands, arm)
        if arm.get('fuzz') and not violations:
            cands = run_fuzz_arm(pid, arm, bins[arm['name']], a.tier, seed, res)
            handle_candidates(cands, arm)

    # 3. known findings
    known = load_known(pid)
    real = []
    for path, summ in violations:
        hit = None
        for k in known:
            if k.get('status') == 'open' and re.search(k['match'], summ):
                hit = k; break
        if hit:
            known_hits.append((hit, summ))
        else:
            real.append((path, summ))
    for k in known:
        if k.get('status') == 'open':
            print('KNOWN-FINDING: property=%s %s' % (pid, k['what']))

    wall = round(time.time() - t0, 1)
    ev = {
        'property_id': pid, 'tier': a.tier, 'seed': a.seed, 'level': spec['level'],
        'coverage': {
            'evaluations': res['evaluations'],
            'distinct_nontrivial': len(res['nt']),
            'nontrivial_total': res['nontrivial'],
            'passed': res['pass'], 'discarded': res['discard'],
            'rule': spec['rule'],
            'samples': res['samples'] or ['(no non-trivial sample recorded)'],
            'labels': dict(sorted(res['labels'].items())),
            'maxima': res['maxima'],
            'inconclusive': res['inconclusive'],
            'arms': [x['name'] for x in arms],
        },
        'assumptions': spec['assumptions'],
        'wall_s': wall,
        'violations': len(real),
    }
    if spec.get('exhaustive'):
        ev['coverage']['exhaustive'] = bool(res['labels'].get('exhaustive_ok', 0)) and not res['inconclusive']
    if real:
        ev['coverage']['violation_summaries'] = [s for _, s in real]
    if known_hits:
        ev['coverage']['known_finding_hits'] = [s for _, s in known_hits]
    os.makedirs(os.path.join(VERIF, 'evidence'), exist_ok=True)
    with open(os.path.join(VERIF, 'evidence', pid + '.json'), 'w') as f:
        json.dump(ev, f, indent=1)
        f.write('\n')
    log('[%s] tier=%s seed=%d evaluations=%d distinct_nontrivial=%d discard=%d wall=%ss' % (pid, a.tier, a.seed, res['evaluations'], len(res['nt']), res['discard'], wall))
    for m in res['inconclusive']:
        log('  inconclusive:', m)
    if real:
        for path, summ in real:
            print('  failure: %s' % summ)
            print('VIOLATION property=%s replay=%s' % (pid, path))
        return 1
    if res.get('hard_error'):
        log('machinery error (not a verdict on the property)')
        return 2
    return 0
