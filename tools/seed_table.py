#!/usr/bin/env python3
"""Rewrites the seeded-change table in DESIGN.md (between the SEED-TABLE markers) from seeded/*/meta.json."""
import json, glob, os, re
V = os.path.dirname(os.path.dirname(os.path.abspath(__file__)))
rows = []
for m in sorted(glob.glob(os.path.join(V, 'seeded', 'C*', 'meta.json'))):
    e = json.load(open(m))
    name = os.path.basename(os.path.dirname(m))
    det = e.get('detected_by', '').replace('|', '/').replace('\n', ' ')
    missed = 'MISSED' in det
    rows.append('| %s | %s | %s | %s |' % (name, e.get('property', ''), 'after strengthening' if missed else 'as first built', det))
tbl = '| seeded change | property | caught | by which check, how (from meta.json) |\n|---|---|---|---|\n' + '\n'.join(rows)
p = os.path.join(V, 'DESIGN.md'); s = open(p).read()
s = re.sub(r'<!-- SEED-TABLE-BEGIN -->.*?<!-- SEED-TABLE-END -->', '<!-- SEED-TABLE-BEGIN -->\n' + tbl + '\n<!-- SEED-TABLE-END -->', s, flags=re.S)
open(p, 'w').write(s)
print(len(rows), 'rows;', sum('MISSED' in r for r in rows), 'needed strengthening')
