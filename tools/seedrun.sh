#!/bin/bash
# seedrun.sh <patch.diff> <check ids...> : apply a seeded change to /repo, run the quick checks, undo. Never commits.
P=$1; shift
git -C /repo status --short | grep -q . && { echo "/repo not clean"; exit 2; }
git -C /repo apply $P || exit 2
for c in "$@"; do
  tier=quick; id=$c
  case $c in *:thorough) tier=thorough; id=${c%%:*};; esac
  echo "--- $id ($tier) against $(basename $(dirname $P))"
  /verif/check $id --tier $tier 2>&1 | grep -E "VIOLATION|failure:|evaluations|inconclusive|machinery" | cut -c1-300
done
git -C /repo checkout -- .
rm -rf /verif/violations
