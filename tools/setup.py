#!/usr/bin/env python3
"""setup_cmd: build every library variant and harness the registered checks use (offline, from disk)."""
import os, sys, subprocess, time
sys.path.insert(0, os.path.dirname(os.path.abspath(__file__)))
import registry, runner
t0 = time.time()
for pid, spec in registry.REG.items():
    if spec.get('disabled'):
        continue
    for arm in spec['arms']:
        if arm.get('kind') == 'py':
            if arm.get('build'):
                arm['build']()
            continue
        b = runner.build_arm(arm)
        print('built', pid, arm['name'], b['build_s'], 's')
print('setup done in %.1fs' % (time.time() - t0))
